/* simalloc: the simulated allocator and ledger.
 * Fixed-address arena, exact-size blocks between redzones, seeded realloc/reuse/fill/placement policy.
 * ASan build: arena poisoned, live payloads unpoisoned byte-exactly.
 * Plain build: canary redzones + scribble-on-free, verified by sa_check(). */
#define _GNU_SOURCE
#include "sim.h"
#include <sys/mman.h>
#include <string.h>
#include <strings.h>
#include <limits.h>
#include <stdarg.h>
#include <stdio.h>
#include <errno.h>
#include <stdlib.h>
#include <errno.h>
#include <unistd.h>

#define ARENA_BASE   ((uintptr_t)0x500000000000ULL)
#define COMPACT_SIZE ((size_t)256 << 20)             /* bulk-poisoned region */
#define FAR_BASE     (ARENA_BASE + ((uintptr_t)1 << 36))
#define FAR_SIZE     ((size_t)1 << 42)               /* 4 TiB of NORESERVE address space */
#define FAR_STRIDE   (((uintptr_t)1 << 32) + ((uintptr_t)1 << 31) + 4096 * 3)
#define REDZONE      64
#define MAXBLK       (1 << 17)
#define CANARY       0xCB
#define SCRIBBLE     0xDD
#define MAX_REQUEST  ((size_t)200 << 20)

typedef struct {
    uintptr_t addr;      /* payload address */
    size_t size;         /* requested size */
    size_t cap;          /* usable capacity of the slot (>= size) */
    uint32_t serial;     /* allocation serial of the current/last tenant */
    int live;
    int far;
    int tag;
} blk_t;

static blk_t *blk;                  /* slots in increasing address order per region */
static int nblk;                    /* compact slots: indices 0..nblk-1 ascending by address */
static uintptr_t bump, far_bump;
static size_t high_water;           /* bytes of compact region dirtied so far in this process */
static sa_cfg_t cfg;
static rng_t arng, grng;
static uint32_t serial;
static size_t live_cnt, live_bytes;
static int freestack[MAXBLK]; static int nfree;
static int cur_tag;
static int cidx[MAXBLK], ncidx, fidx[1024], nfidx;
static int far_count;
static int force_far;             /* the next allocations go to the far region, 6 GiB apart (sa_force_far) */
void sa_force_far(int on) { force_far = on; }
uint64_t sa_stat_moves, sa_stat_inplace, sa_stat_reuses, sa_stat_allocs, sa_stat_frees;
static int arena_ok;

void sa_set_tag(int tag) { cur_tag = tag; }

/* debugging aid: SIM_TRACE_SERIAL=<n> prints a stack trace when allocation #n is made */
static uint32_t trace_serial;
#ifdef SIM_ASAN
void __sanitizer_print_stack_trace(void);
static void sa_print_stack(void) { __sanitizer_print_stack_trace(); }
#else
#include <execinfo.h>
static void sa_print_stack(void) { void *bt[32]; int n = backtrace(bt, 32); backtrace_symbols_fd(bt, n, 2); }
#endif

void sa_init(void)
{
    void *p = mmap((void *)ARENA_BASE, COMPACT_SIZE, PROT_READ | PROT_WRITE,
                   MAP_PRIVATE | MAP_ANONYMOUS | MAP_NORESERVE | MAP_FIXED_NOREPLACE, -1, 0);
    void *q = mmap((void *)FAR_BASE, FAR_SIZE, PROT_READ | PROT_WRITE,
                   MAP_PRIVATE | MAP_ANONYMOUS | MAP_NORESERVE | MAP_FIXED_NOREPLACE, -1, 0);
    if (p != (void *)ARENA_BASE || q != (void *)FAR_BASE) {
        fprintf(stderr, "simalloc: cannot map arena at fixed address (%p %p): %s\n", p, q, strerror(errno));
        _exit(2);
    }
    blk = calloc(MAXBLK, sizeof(blk_t));
    if (getenv("SIM_TRACE_SERIAL")) trace_serial = (uint32_t)strtoul(getenv("SIM_TRACE_SERIAL"), NULL, 10);
    SA_POISON((void *)ARENA_BASE, COMPACT_SIZE);
    arena_ok = 1;
    bump = ARENA_BASE + 4096;
    far_bump = FAR_BASE + 4096;
}

void sa_reset(const sa_cfg_t *c)
{
    /* forget everything from the previous run */
    for (int i = 0; i < nblk; i++) {
        if (blk[i].far) {
            SA_UNPOISON((void *)(blk[i].addr - REDZONE), blk[i].cap + 2 * REDZONE);
            madvise((void *)((blk[i].addr - REDZONE) & ~(uintptr_t)4095), ((blk[i].cap + 2 * REDZONE + 8191) & ~(size_t)4095), MADV_DONTNEED);
        }
    }
    if (bump > ARENA_BASE + 4096) {
        size_t used = bump - ARENA_BASE;
        SA_POISON((void *)ARENA_BASE, used);
        if (used > ((size_t)8 << 20)) madvise((void *)ARENA_BASE, used, MADV_DONTNEED);
    }
    nblk = 0; ncidx = 0; nfidx = 0; nfree = 0; serial = 0; live_cnt = 0; live_bytes = 0; far_count = 0; cur_tag = 0;
    bump = ARENA_BASE + 4096;
    far_bump = FAR_BASE + 4096;
    cfg = *c;
    rng_seed(&arng, c->seed, STREAM_ALLOC);
    rng_seed(&grng, c->seed, STREAM_GARBAGE);
    (void)high_water;
}

void sa_set_fill(int fill) { cfg.fill = fill; }

int sa_owns(const void *p)
{
    uintptr_t a = (uintptr_t)p;
    return (a >= ARENA_BASE && a < ARENA_BASE + COMPACT_SIZE) || (a >= FAR_BASE && a < FAR_BASE + FAR_SIZE);
}

/* slot index whose [addr-REDZONE, addr+cap+REDZONE) contains a.  Compact slots are handed out at ascending
 * addresses, so cidx[] (their indices in blk[], in creation order) is sorted by address: bisection.
 * Far slots are few: linear scan over fidx[]. */
static int find_slot(uintptr_t a)
{
    int lo = 0, hi = ncidx - 1, best = -1;
    if (a >= FAR_BASE) {
        for (int k = nfidx - 1; k >= 0; k--) {
            int i = fidx[k];
            if (a >= blk[i].addr - REDZONE && a < blk[i].addr + blk[i].cap + REDZONE) return i;
        }
        return -1;
    }
    while (lo <= hi) {
        int mid = (lo + hi) / 2;
        if (blk[cidx[mid]].addr - REDZONE <= a) { best = cidx[mid]; lo = mid + 1; }
        else hi = mid - 1;
    }
    if (best >= 0 && a < blk[best].addr + blk[best].cap + REDZONE) return best;
    return -1;
}

int sa_lookup(const void *p, void **base, size_t *size, int *live, uint32_t *ser)
{
    int i;
    if (!sa_owns(p)) return 0;
    i = find_slot((uintptr_t)p);
    if (i < 0) return 0;
    if (base) *base = (void *)blk[i].addr;
    if (size) *size = blk[i].size;
    if (live) *live = blk[i].live;
    if (ser) *ser = blk[i].serial;
    return 1;
}
/* does the address lie in the simulated heap at all (as opposed to static storage or the stack)? */
int sa_in_arena(const void *p) { uintptr_t a = (uintptr_t)p; return (a >= ARENA_BASE && a < ARENA_BASE + COMPACT_SIZE) || (a >= FAR_BASE && a < FAR_BASE + FAR_SIZE); }
int sa_readable(const void *p, size_t n)
{
    int i;
    uintptr_t a = (uintptr_t)p;
    if (!sa_owns(p)) return 0;
    i = find_slot(a);
    if (i < 0 || !blk[i].live) return 0;
    return a >= blk[i].addr && a + n <= blk[i].addr + blk[i].size;
}
int sa_block_tag(const void *p)
{
    int i = sa_owns(p) ? find_slot((uintptr_t)p) : -1;
    return i < 0 ? -1 : blk[i].tag;
}
size_t sa_live_count(void) { return live_cnt; }
size_t sa_live_bytes(void) { return live_bytes; }
uint32_t sa_serial(void) { return serial; }
uint64_t sa_offset(const void *p)
{
    uintptr_t a = (uintptr_t)p;
    if (!p) return 0;
    if (!sa_owns(p)) return ~(uint64_t)0;
    return a - ARENA_BASE;
}
uint64_t sa_live_digest(void)
{
    uint64_t h = 1469598103934665603ULL;
    for (int i = 0; i < nblk; i++) if (blk[i].live) {
        h ^= blk[i].addr - ARENA_BASE; h *= 0x100000001b3ULL;
        h ^= blk[i].size; h *= 0x100000001b3ULL;
    }
    return h;
}
size_t sa_count_live_since(uint32_t s)
{
    size_t n = 0;
    for (int i = 0; i < nblk; i++) if (blk[i].live && blk[i].serial > s) n++;
    return n;
}
size_t sa_report_live_since(uint32_t s, char *buf, size_t n)
{
    size_t k = 0, cnt = 0;
    if (n) buf[0] = 0;
    for (int i = 0; i < nblk; i++) if (blk[i].live && blk[i].serial > s) {
        cnt++;
        if (k + 48 < n) k += (size_t)snprintf(buf + k, n - k, "[#%u %zuB tag%d]", blk[i].serial, blk[i].size, blk[i].tag);
    }
    return cnt;
}

static void fill_fresh(unsigned char *p, size_t n)
{
    switch (cfg.fill) {
    case FILL_00: memset(p, 0x00, n); break;
    case FILL_FF: memset(p, 0xFF, n); break;
    case FILL_A5: memset(p, 0xA5, n); break;
    case FILL_RANDOM: {
        size_t i = 0;
        for (; i + 8 <= n; i += 8) { uint64_t v = rng_u64(&grng); memcpy(p + i, &v, 8); }
        if (i < n) { uint64_t v = rng_u64(&grng); memcpy(p + i, &v, n - i); }
        break;
    }
    case FILL_PTR: {
        /* looks like a pointer into poisoned/dead arena space (page 0 of the compact arena is never handed out) */
        uintptr_t bogus = ARENA_BASE + 64 + 8 * rng_below(&grng, 256);
        size_t i = 0;
        for (; i + sizeof(bogus) <= n; i += sizeof(bogus)) memcpy(p + i, &bogus, sizeof(bogus));
        for (; i < n; i++) p[i] = 0xA5;
        break;
    }
    }
}

static int new_slot(size_t size)
{
    size_t cap = (size + 15) & ~(size_t)15;
    blk_t *b;
    if (cap == 0) cap = 16;
    if (nblk >= MAXBLK) sim_skip("allocator-slots-exhausted");
    b = &blk[nblk];
    memset(b, 0, sizeof(*b));
    if (((cfg.place == PLACE_FAR && rng_chance(&arng, 1, 2)) || force_far) && cap <= 65536 && far_count < 600) {
        b->far = 1;
        fidx[nfidx++] = nblk;
        b->addr = far_bump + REDZONE;
        far_bump += FAR_STRIDE + ((cap + 2 * REDZONE + 4095) & ~(size_t)4095);
        far_count++;
        SA_POISON((void *)(b->addr - REDZONE), cap + 2 * REDZONE);
    } else {
        if (bump + cap + 2 * REDZONE + 4096 > ARENA_BASE + COMPACT_SIZE) sim_skip("arena-exhausted");
        b->addr = bump + REDZONE;
        bump += cap + 2 * REDZONE;
        cidx[ncidx++] = nblk;
    }
    b->cap = cap;
#ifndef SIM_ASAN
    memset((void *)(b->addr - REDZONE), CANARY, REDZONE);
    memset((void *)(b->addr + cap), CANARY, REDZONE);
#endif
    return nblk++;
}

static void activate(int i, size_t size)
{
    blk_t *b = &blk[i];
    b->size = size;
    b->live = 1;
    b->serial = ++serial;
    if (trace_serial && serial == trace_serial) { fprintf(stderr, "simalloc: allocation #%u (%zu bytes) made here:\n", serial, size); sa_print_stack(); }
    b->tag = cur_tag;
    live_cnt++;
    live_bytes += size;
    SA_POISON((void *)b->addr, b->cap);
    SA_UNPOISON((void *)b->addr, size);
#ifndef SIM_ASAN
    memset((void *)(b->addr + size), CANARY, b->cap - size);
#endif
}

static int sa_own_request;      /* >0 while the allocator itself asks for a block of no bytes */
void *sim_malloc(size_t n)
{
    int i = -1;
    if (!arena_ok) return malloc(n);
    sa_stat_allocs++;
    sim_alloc_step();
    if (n > MAX_REQUEST) { errno = ENOMEM; return NULL; }
    if (n == 0 && cfg.zero_null && !sa_own_request) { probe_hit("malloc_of_nothing_gave_null"); return NULL; }      /* "either a null pointer is returned, or ..." (ISO C 7.22.3) */
    if (cfg.reuse != REUSE_NEVER && nfree) {
        int depth = cfg.reuse == REUSE_QUARANTINE ? 4 : 0;      /* leave the newest `depth` frees alone */
        for (int k = nfree - 1 - depth, tries = 0; k >= 0 && tries < 8; k--, tries++) {
            blk_t *b = &blk[freestack[k]];
            if (!b->live && b->cap >= n && b->cap <= 2 * n + 32) {
                i = freestack[k];
                memmove(&freestack[k], &freestack[k + 1], (size_t)(nfree - k - 1) * sizeof(int));
                nfree--;
                sa_stat_reuses++;
                break;
            }
        }
    }
    if (i < 0) i = new_slot(n);
    activate(i, n);
    fill_fresh((unsigned char *)blk[i].addr, n);
    return (void *)blk[i].addr;
}

void *sim_calloc(size_t n, size_t m)
{
    size_t tot;
    void *p;
    if (m && n > (size_t)-1 / m) { errno = ENOMEM; return NULL; }
    tot = n * m;
    p = sim_malloc(tot);
    if (p) memset(p, 0, tot);
    return p;
}

static void memory_event(const char *kind, const void *p)
{
    /* double free / foreign free / canary damage detected by the allocator itself */
    if (plan_get(R.plan, "mem_is_violation", 1)) sim_fail("MEMORY", "%s at arena offset %llu", kind, (unsigned long long)sa_offset(p));
    R.oos_memory_reports++;
}

void sim_free(void *p)
{
    int i;
    if (!p) return;
    if (!arena_ok || !sa_owns(p)) { free(p); return; }
    sa_stat_frees++;
    i = find_slot((uintptr_t)p);
    if (i < 0 || blk[i].addr != (uintptr_t)p) { memory_event("free-of-non-block-pointer", p); return; }
    if (!blk[i].live) { memory_event("double-free", p); return; }
    blk[i].live = 0;
    live_cnt--;
    live_bytes -= blk[i].size;
#ifdef SIM_ASAN
    SA_POISON((void *)blk[i].addr, blk[i].cap);
#else
    memset((void *)blk[i].addr, SCRIBBLE, blk[i].cap);
#endif
    if (nfree < MAXBLK) freestack[nfree++] = i;
}

void *sim_realloc(void *p, size_t n)
{
    int i, move;
    void *q;
    size_t old;
    if (!p) return sim_malloc(n);
    if (!arena_ok || !sa_owns(p)) return realloc(p, n);
    if (n == 0) {
        sim_free(p);
        if (cfg.realloc0_unique) { void *q0; probe_hit("realloc_to_nothing_gave_a_block"); sa_own_request++; q0 = sim_malloc(0); sa_own_request--; return q0; }      /* the other reading of realloc(p, 0) */
        return NULL;
    }
    if (n > MAX_REQUEST) { errno = ENOMEM; return NULL; }
    i = find_slot((uintptr_t)p);
    if (i < 0 || blk[i].addr != (uintptr_t)p) { memory_event("realloc-of-non-block-pointer", p); return sim_malloc(n); }
    if (!blk[i].live) { memory_event("realloc-after-free", p); return sim_malloc(n); }
    old = blk[i].size;
    move = 1;
    if (n <= blk[i].cap) {
        if (cfg.realloc_policy == REALLOC_INPLACE) move = 0;
        else if (cfg.realloc_policy == REALLOC_RANDOM) move = rng_chance(&arng, 1, 2);
    }
    if (!move) {
        sa_stat_inplace++;
        live_bytes += n - old;
        blk[i].size = n;
        SA_POISON((void *)blk[i].addr, blk[i].cap);
        SA_UNPOISON((void *)blk[i].addr, n);
        if (n > old) fill_fresh((unsigned char *)blk[i].addr + old, n - old);
#ifndef SIM_ASAN
        memset((void *)(blk[i].addr + n), CANARY, blk[i].cap - n);
#endif
        return p;
    }
    sa_stat_moves++;
    q = sim_malloc(n);
    if (!q) return NULL;
    memcpy(q, p, old < n ? old : n);
    sim_free(p);
    return q;
}

char *sim_strdup(const char *s)
{
    size_t n = strlen(s) + 1;
    char *d = sim_malloc(n);
    if (d) memcpy(d, s, n);
    return d;
}

/* libc calls that allocate on the caller's behalf: the block they hand out is the caller's to free, so it has to come from the
   simulated allocator -- otherwise a forgotten free() of a getline() buffer or a strndup() result would be invisible to the ledger.
   (The pinned library uses none of these; a maintainer's tidy-up might.) */
char *sim_strndup(const char *s, size_t n)
{
    size_t l = strnlen(s, n);
    char *d = sim_malloc(l + 1);
    if (d) { memcpy(d, s, l); d[l] = 0; }
    return d;
}
ssize_t sim_getdelim(char **lineptr, size_t *n, int delim, FILE *fp)
{
    size_t len = 0;
    int c;
    if (!lineptr || !n || !fp) { errno = EINVAL; return -1; }
    if (!*lineptr || !*n) { *n = 120; *lineptr = sim_realloc(*lineptr, *n); }      /* (allocated before the stream is looked at, as glibc does) */
    while ((c = getc(fp)) != EOF) {
        if (len + 2 > *n) { *n *= 2; *lineptr = sim_realloc(*lineptr, *n); }
        (*lineptr)[len++] = (char)c;
        if (c == delim) break;
    }
    (*lineptr)[len] = 0;
    return len ? (ssize_t)len : -1;
}
ssize_t sim_getline(char **lineptr, size_t *n, FILE *fp) { return sim_getdelim(lineptr, n, '\n', fp); }
ssize_t sim_getdelim2(char **lineptr, size_t *n, int delim, FILE *fp) { return sim_getdelim(lineptr, n, delim, fp); }      /* (__getdelim: what glibc's inline getline() calls) */
int sim_vasprintf(char **out, const char *fmt, va_list ap)
{
    va_list ap2;
    int n;
    va_copy(ap2, ap);
    n = vsnprintf(NULL, 0, fmt, ap2);
    va_end(ap2);
    if (n < 0) { *out = NULL; return -1; }
    *out = sim_malloc((size_t)n + 1);
    if (!*out) return -1;
    vsnprintf(*out, (size_t)n + 1, fmt, ap);
    return n;
}
int sim_asprintf(char **out, const char *fmt, ...)
{
    va_list ap;
    int n;
    va_start(ap, fmt);
    n = sim_vasprintf(out, fmt, ap);
    va_end(ap);
    return n;
}
/* vsnprintf() may fail (ENOMEM inside the formatter, EOVERFLOW, EILSEQ): -1, and what it has written so far stays written.  The
   executor names the call of the current operation that fails (sim_vsnprintf_fail_at: 1 = first, 2 = second ...; 0 = none). */
int sim_vsnprintf_fail_at, sim_vsnprintf_calls, sim_vsnprintf_failed;
int sim_vsnprintf(char *str, size_t n, const char *fmt, va_list ap)
{
    if (++sim_vsnprintf_calls == sim_vsnprintf_fail_at) {
        va_list ap2;
        va_copy(ap2, ap);
        if (str && n > 1) vsnprintf(str, n / 2 + 1, fmt, ap2);      /* part of the text is there already */
        va_end(ap2);
        sim_vsnprintf_failed++;
        probe_hit("vsnprintf_failed");
        tr_printf("vsnprintf call %d -> -1 ENOMEM", sim_vsnprintf_calls);
        errno = ENOMEM;
        return -1;
    }
    return vsnprintf(str, n, fmt, ap);
}
void *sim_reallocarray(void *p, size_t a, size_t b) { if (b && a > (size_t)-1 / b) { errno = ENOMEM; return NULL; } return sim_realloc(p, a * b); }

void sa_check(void)
{
#ifndef SIM_ASAN
    for (int i = 0; i < nblk; i++) {
        const unsigned char *lo = (const unsigned char *)(blk[i].addr - REDZONE);
        const unsigned char *hi = (const unsigned char *)(blk[i].addr + (blk[i].live ? blk[i].size : blk[i].cap));
        size_t nhi = REDZONE + (blk[i].live ? blk[i].cap - blk[i].size : 0);
        for (size_t k = 0; k < REDZONE; k++) if (lo[k] != CANARY) { memory_event("redzone-underflow-write", lo + k); goto next; }
        for (size_t k = 0; k < nhi; k++) if (hi[k] != CANARY) { memory_event("redzone-overflow-write", hi + k); goto next; }
        if (!blk[i].live) {
            const unsigned char *b = (const unsigned char *)blk[i].addr;
            for (size_t k = 0; k < blk[i].cap; k++) if (b[k] != SCRIBBLE) { memory_event("write-after-free", b + k); break; }
        }
    next:;
    }
#endif
}

/* paint the stack region below the caller with a byte pattern */
__attribute__((noinline)) void paint_stack(int byte, size_t nbytes)
{
    volatile unsigned char *p = __builtin_alloca(nbytes);
    for (size_t i = 0; i < nbytes; i++) p[i] = (unsigned char)byte;
    __asm__ volatile("" ::"r"(p) : "memory");
}

/* ------------------------------------------------------------------ libc answers that ISO C leaves open (added after seeded round 14)
 * memcpy: for ranges that do not overlap every copying order gives the same result, so the real memcpy does the work; for ranges that do
 * overlap (undefined behaviour, which glibc's backwards-copying memcpy often forgives) the bytes are copied one by one, front to back in
 * runs with an even seed and back to front in the others -- the two orders real implementations use.
 * strcmp & co: only the sign of the result is specified.  Per run (seed) the library sees the byte difference as glibc gives it, -1/+1,
 * the difference shifted left by eight bits (its low byte is zero) or INT_MIN/INT_MAX. */
static int libc_mode(void) { return R.plan ? (int)((R.plan->seed >> 1) & 3) : 0; }
void *sim_memcpy(void *d, const void *s, size_t n)
{
    unsigned char *dd = d; const unsigned char *ss = s;
#ifdef SIM_ASAN
    return memcpy(d, s, n);      /* the sanitizer's own memcpy reports overlapping ranges as such (memcpy-param-overlap), which is the stricter answer */
#endif
    if (!n || dd == ss || dd + n <= ss || ss + n <= dd) return memcpy(d, s, n);
    probe_hit("memcpy_ranges_overlap");
    if (R.plan && (R.plan->seed & 1)) { for (size_t i = n; i-- > 0;) dd[i] = ss[i]; }
    else { for (size_t i = 0; i < n; i++) dd[i] = ss[i]; }
    return d;
}
static int cmp_answer(int d)
{
    if (!d) return 0;
    switch (libc_mode()) {
    case 1: return d < 0 ? -1 : 1;
    case 2: return d < 0 ? -((-d) << 8) : d << 8;
    case 3: return d < 0 ? INT_MIN : INT_MAX;
    default: return d;
    }
}
int sim_strcmp(const char *a, const char *b) { return cmp_answer(strcmp(a, b)); }
int sim_strncmp(const char *a, const char *b, size_t n) { return cmp_answer(strncmp(a, b, n)); }
int sim_strcasecmp(const char *a, const char *b) { return cmp_answer(strcasecmp(a, b)); }
int sim_strncasecmp(const char *a, const char *b, size_t n) { return cmp_answer(strncasecmp(a, b, n)); }
int sim_memcmp(const void *a, const void *b, size_t n) { return cmp_answer(memcmp(a, b, n)); }
