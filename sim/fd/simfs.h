#ifndef SIMFS_H
#define SIMFS_H
#include <stddef.h>
#include <stdint.h>
/* in-memory file tree + process/env simulation used by confsim/envsim */
void simfs_reset(uint64_t seed);
int  simfs_add_file(const char *path, const void *data, size_t len, int mode);   /* absolute path */
int  simfs_add_dir(const char *path);
void simfs_set_fdopen_read_failure(int mode);      /* 1: reading a temporary file back fails at once, 2: after half of it */
int  simfs_add_dangling(const char *path);
int  simfs_add_looping_link(const char *path);   /* the same, stat() fails with ELOOP */      /* listed by readdir() (DT_LNK), stat() fails with ENOENT */
int  simfs_exists(const char *path);
int  simfs_mode(const char *path);
void simfs_set_cwd(const char *path);
const char *simfs_cwd(void);
extern int simfs_spawns;                 /* system()/fork/exec/popen census */
extern int simfs_tempfiles_created, simfs_tempfile_bad_mode, simfs_tempfile_name_reused, simfs_tempfiles_live;
extern int simfs_fopen_calls, simfs_fopen_failed;
extern char simfs_last_cmd[512];
int  simfs_open_fds(void);               /* descriptors opened through mkstemp and not closed */
int  simfs_open_dirs(void);
int  simfs_live_temp_files(void);      /* files created by mkstemp that still exist */
void simfs_set_dir_grows(int on);      /* a file arrives in a directory between a listing and rewinddir() */
int  simfs_live_spawn_files(void);     /* files that did not exist until a spawned command line's > redirection created them, and that still exist */
const char *simfs_a_spawn_file(void);
void simfs_tempfile_check_at_return(int fd);   /* oracle hook: called by workloads after spiftool_temp_file returns */
int  simfs_fd_mode(int fd);
long simfs_fd_size(int fd);
int  simfs_is_fd(int fd);
const char *simfs_last_temp_name(void);  /* the name the last successful mkstemp produced, as written into its template */
int  simfs_is_temp(const char *path);   /* the path names a live file created by mkstemp */
void simfs_set_mkstemp_mode(int m);    /* 0600 (modern libc) or 0666 (historic: mode left to the umask) */

/* name service table */
void simfs_set_call_failures(int fdopen_k, int fchmod_k);
void simfs_openlog_reset(void);
int  simfs_openlog_get(const char *name, int j);
extern int simfs_openlog_last_sid;
void simns_reset(void);
void simns_add_proto(const char *name, int number);
void simns_add_serv(const char *name, const char *proto, int port);
extern int simns_lookups;

void simenv_set_rand_seed(uint64_t seed);
extern int simenv_exit_called;
#endif
