/* simfs: in-memory file tree, temp files, directory scans, simulated system(), name service, time/rand/pid, exit */
#define _GNU_SOURCE
#include "sim.h"
#include "simfd.h"
#include "simfs.h"
#include <stdlib.h>
#include <string.h>
#include <errno.h>
#include <unistd.h>
#include <dirent.h>
#include <limits.h>
#include <netdb.h>
#include <sys/stat.h>
#include <netinet/in.h>

#define FS_FD_BASE 900
#define FS_FD_MAX  1024
#define MAXNODES 512
#define SIM_OPEN_MAX 1000
typedef struct { char *path; unsigned char *data; size_t len; int mode; int isdir; int live; int is_temp; int by_spawn; int dangling; } node_t;      /* dangling: a name the directory lists and stat() cannot follow (a symbolic link to nothing, a file removed between readdir() and stat()) */
static node_t nodes[MAXNODES];
static int nnodes;
static char cwd[PATH_MAX] = "/";
static mode_t cur_umask = 022;
static rng_t frng;
static uint64_t fs_seed;
static char last_temp[PATH_MAX];
static struct { int node; int used; } fsfd[FS_FD_MAX - FS_FD_BASE];
#define MAXEVER 16384
static char *ever_names[MAXEVER]; static int never;
int simfs_spawns, simfs_tempfiles_created, simfs_tempfile_bad_mode, simfs_tempfile_name_reused, simfs_tempfiles_live;
int simfs_fopen_calls, simfs_fopen_failed;
char simfs_last_cmd[512];
static int open_dirs;
static int mkstemp_base_mode = 0600;
static int dir_grows;
void simfs_set_mkstemp_mode(int m) { mkstemp_base_mode = m; }
static int fdopen_fail_at, fchmod_fail_at, fdopen_calls, fchmod_calls;
static int fdo_read_fail;
int simenv_exit_called;

static void norm(const char *in, char *out)
{
    /* join with cwd, collapse //, /./ and /../ */
    char tmp[PATH_MAX * 2 + 4];
    char *parts[PATH_MAX / 2]; int np = 0;
    char *save = NULL, *tok;
    if (in[0] == '/') snprintf(tmp, sizeof(tmp), "%s", in);
    else snprintf(tmp, sizeof(tmp), "%s/%s", cwd, in);
    for (tok = strtok_r(tmp, "/", &save); tok; tok = strtok_r(NULL, "/", &save)) {
        if (!strcmp(tok, ".")) continue;
        if (!strcmp(tok, "..")) { if (np) np--; continue; }
        if (np < PATH_MAX / 2) parts[np++] = tok;
    }
    out[0] = '/'; out[1] = 0;
    for (int i = 0; i < np; i++) {
        size_t l = strlen(out);
        if (l + strlen(parts[i]) + 2 >= PATH_MAX) break;
        if (l > 1) strcat(out, "/");
        strcat(out, parts[i]);
    }
}
static int find_node(const char *path)
{
    char p[PATH_MAX];
    if (strlen(path) >= PATH_MAX) { errno = ENAMETOOLONG; return -1; }
    {
        /* a single component longer than NAME_MAX cannot exist */
        const char *q = path; size_t run = 0;
        for (; *q; q++) { if (*q == '/') run = 0; else if (++run > NAME_MAX) { errno = ENAMETOOLONG; return -1; } }
    }
    norm(path, p);
    for (int i = 0; i < nnodes; i++) if (nodes[i].live && !strcmp(nodes[i].path, p)) return i;
    errno = ENOENT;
    return -1;
}
void simfs_reset(uint64_t seed)
{
    for (int i = 0; i < nnodes; i++) { free(nodes[i].path); free(nodes[i].data); }
    memset(nodes, 0, sizeof(nodes));
    nnodes = 0;
    for (int i = 0; i < never; i++) free(ever_names[i]);
    never = 0;
    memset(fsfd, 0, sizeof(fsfd));
    strcpy(cwd, "/");
    cur_umask = 022;
    rng_seed(&frng, seed, 77);
    fs_seed = seed * 0x9e3779b97f4a7c15ULL + 1;
    simfs_spawns = simfs_tempfiles_created = simfs_tempfile_bad_mode = simfs_tempfile_name_reused = simfs_tempfiles_live = 0;
    simfs_fopen_calls = simfs_fopen_failed = 0;
    simfs_last_cmd[0] = 0;
    open_dirs = 0;
    simenv_exit_called = 0;
    mkstemp_base_mode = 0600;
    dir_grows = 0;
    last_temp[0] = 0;
    fdopen_fail_at = fchmod_fail_at = fdopen_calls = fchmod_calls = 0; fdo_read_fail = 0;
    simfs_add_dir("/");
    simfs_add_dir("/tmp");
}
static int add_node(const char *path, const void *data, size_t len, int mode, int isdir)
{
    char p[PATH_MAX];
    int i;
    norm(path, p);
    for (i = 0; i < nnodes; i++) if (nodes[i].live && !strcmp(nodes[i].path, p)) break;
    if (i == nnodes) {
        /* reuse the slot of a removed file if there is one */
        for (int k = 0; k < nnodes; k++) if (!nodes[k].live) { i = k; free(nodes[k].path); free(nodes[k].data); nodes[k].path = NULL; nodes[k].data = NULL; break; }
        if (i == nnodes) { if (nnodes >= MAXNODES) return -1; nnodes++; }
        nodes[i].path = strdup(p);
    } else free(nodes[i].data);
    nodes[i].data = malloc(len + 1);
    if (len) memcpy(nodes[i].data, data, len);
    nodes[i].len = len; nodes[i].mode = mode; nodes[i].isdir = isdir; nodes[i].live = 1; nodes[i].is_temp = 0; nodes[i].by_spawn = 0; nodes[i].dangling = 0;
    return i;
}
int simfs_add_file(const char *path, const void *data, size_t len, int mode) { return add_node(path, data, len, mode, 0); }
int simfs_add_dir(const char *path) { return add_node(path, "", 0, 0755, 1); }
int simfs_add_dangling(const char *path) { int i = add_node(path, "", 0, 0777, 0); if (i >= 0) nodes[i].dangling = 1; return i; }
int simfs_add_looping_link(const char *path) { int i = add_node(path, "", 0, 0777, 0); if (i >= 0) nodes[i].dangling = 2; return i; }      /* a symbolic link that leads back to itself: stat() says ELOOP, not ENOENT */
int simfs_exists(const char *path) { return find_node(path) >= 0; }
int simfs_mode(const char *path) { int i = find_node(path); return i < 0 ? -1 : nodes[i].mode; }
void simfs_set_cwd(const char *path) { norm(path, cwd); }
const char *simfs_cwd(void) { return cwd; }
int simfs_open_fds(void) { int n = 0; for (int i = 0; i < FS_FD_MAX - FS_FD_BASE; i++) n += fsfd[i].used; return n; }
int simfs_open_dirs(void) { return open_dirs; }
int simfs_live_temp_files(void) { int n = 0; for (int i = 0; i < nnodes; i++) if (nodes[i].live && nodes[i].is_temp) n++; return n; }
int simfs_live_spawn_files(void) { int n = 0; for (int i = 0; i < nnodes; i++) if (nodes[i].live && nodes[i].by_spawn) n++; return n; }
const char *simfs_a_spawn_file(void) { for (int i = nnodes - 1; i >= 0; i--) if (nodes[i].live && nodes[i].by_spawn) return nodes[i].path; return ""; }
int simfs_fd_mode(int fd) { return (fd >= FS_FD_BASE && fd < FS_FD_MAX && fsfd[fd - FS_FD_BASE].used) ? nodes[fsfd[fd - FS_FD_BASE].node].mode : -1; }

/* ---- libc entry points ---- */
/* what the fault script did to each fopen(), by path and in order: a reference that wants to follow the library asks "what happened the
   j-th time THIS file was opened", not "what happened to the k-th open of the run" -- how many opens a parse makes, and in which order,
   is the library's business */
#define OPENLOG_MAX 1200
static struct { char path[160]; int how, sid; } openlog[OPENLOG_MAX];      /* sid: the number of the stream this open produced (simfd_last_cookie_id) */
int simfs_openlog_last_sid;              /* set by simfs_openlog_get: the stream of the entry it just answered for (0: none) */
static int nopenlog;
void simfs_openlog_reset(void) { nopenlog = 0; }
static int openlog_added;
static void openlog_add(const char *path, int how) { openlog_added = nopenlog < OPENLOG_MAX; if (nopenlog < OPENLOG_MAX) { char np[PATH_MAX]; norm(path, np); snprintf(openlog[nopenlog].path, sizeof(openlog[nopenlog].path), "%s", np); openlog[nopenlog].how = how; openlog[nopenlog].sid = 0; nopenlog++; } }
static FILE *openlog_stream(FILE *fp) { if (fp && openlog_added && nopenlog > 0) openlog[nopenlog - 1].sid = simfd_last_cookie_id(); return fp; }
/* outcome of the j-th (0-based) fopen of a file whose normalised path ends in /name: 0 scripted failure, 1 nothing scripted, 2 scripted "opens but unreadable"; -1 never opened */
int simfs_openlog_get(const char *name, int j)
{
    size_t nl = strlen(name);
    simfs_openlog_last_sid = 0;
    for (int i = 0; i < nopenlog; i++) {
        size_t pl = strlen(openlog[i].path);
        if (pl >= nl && !strcmp(openlog[i].path + pl - nl, name) && (pl == nl || openlog[i].path[pl - nl - 1] == '/') && j-- == 0) { simfs_openlog_last_sid = openlog[i].sid; return openlog[i].how; }
    }
    return -1;
}
FILE *sim_fopen(const char *path, const char *mode)
{
    int i, f;
    sim_step();
    simfs_fopen_calls++;
    (void)mode;
    f = fault_next(FC_OPEN);
    if (f >= 0 && F_OUT(f) != FO_FULL) {
        static const int en[FO_NMAX] = { [FO_ENOENT] = ENOENT, [FO_EMFILE] = EMFILE, [FO_EACCES] = EACCES, [FO_EIO] = EIO };
        int out = F_OUT(f);
        if (en[out]) { fault_fired(FC_OPEN, out); simfs_fopen_failed++; tr_printf("fopen %s -> %s", path, fo_names[out]); openlog_add(path, 0); errno = en[out]; return NULL; }
    }
    openlog_add(path, f >= 0 && F_OUT(f) == FO_FULL && F_PARAM(f) == 1 ? 2 : 1);
    if (simfd_open_streams() >= SIM_OPEN_MAX) {      /* per-process descriptor limit, as a real kernel has */
        simfs_fopen_failed++; fault_fired(FC_OPEN, FO_EMFILE); tr_printf("fopen %.80s -> EMFILE(limit)", path); errno = EMFILE; return NULL;
    }
    i = find_node(path);
    if (i >= 0 && nodes[i].dangling) i = -1;
    if (i < 0) { simfs_fopen_failed++; tr_printf("fopen %.80s -> ENOENT", path); return NULL; }
    if (nodes[i].isdir) {
        /* fopen("r") of a directory succeeds on Linux, reads fail with EISDIR: model as empty unreadable stream */
        tr_printf("fopen %.80s (directory)", path);
        return openlog_stream(simfd_cookie_stream_unreadable());
    }
    if (!(nodes[i].mode & 0400)) { simfs_fopen_failed++; errno = EACCES; tr_printf("fopen %.80s -> EACCES", path); return NULL; }
    if (f >= 0 && F_OUT(f) == FO_FULL && F_PARAM(f) == 1) {     /* scripted: the open succeeds, no byte can be read */
        tr_printf("fopen %.80s (unreadable)", path);
        return openlog_stream(simfd_cookie_stream_unreadable());
    }
    tr_printf("fopen %.80s len=%zu", path, nodes[i].len);
    return openlog_stream(simfd_cookie_stream(nodes[i].data, nodes[i].len, 1, 0));
}
static int fs_close(int fd)
{
    if (fd < FS_FD_BASE || fd >= FS_FD_MAX || !fsfd[fd - FS_FD_BASE].used) { errno = EBADF; return -1; }
    fsfd[fd - FS_FD_BASE].used = 0;
    return 0;
}
int simfs_close(int fd) { return fs_close(fd); }
int simfs_is_fd(int fd) { return fd >= FS_FD_BASE && fd < FS_FD_MAX; }
long simfs_fd_size(int fd) { return (fd >= FS_FD_BASE && fd < FS_FD_MAX && fsfd[fd - FS_FD_BASE].used) ? (long)nodes[fsfd[fd - FS_FD_BASE].node].len : -1; }

/* two calls that succeed in ordinary life and may legally fail: the k-th fdopen() of a run with EMFILE (no stream to be had), the
   k-th fchmod() with EPERM (a file system that does not do modes); 0 = never.  Set per run from the plan's knobs. */
void simfs_set_call_failures(int fdopen_k, int fchmod_k) { fdopen_fail_at = fdopen_k; fchmod_fail_at = fchmod_k; fdopen_calls = fchmod_calls = 0; }
typedef struct { FILE *inner; int fd; size_t given, total; } fdo_t;
/* reading a temporary file back may fail like any other read (the disk, the quota, the server): fdo_read_fail 1 = the first read of
   every stream made by fdopen() fails with EIO, 2 = the stream delivers half of the file and fails then; 0 = never */
void simfs_set_fdopen_read_failure(int mode) { fdo_read_fail = mode; }
static ssize_t fdo_read(void *c, char *b, size_t n)
{
    fdo_t *f = c;
    size_t r;
    if (fdo_read_fail == 1 || (fdo_read_fail == 2 && f->given >= f->total / 2)) { fault_fired(FC_READ, FO_EIO); probe_hit("temporary_file_read_back_failed"); tr_printf("read of fdopen stream fd%d -> EIO after %zu bytes", f->fd, f->given); errno = EIO; return -1; }
    if (fdo_read_fail == 2 && n > f->total / 2 - f->given) n = f->total / 2 - f->given;
    r = fread(b, 1, n, f->inner);
    f->given += r;
    return (ssize_t)r;
}
static int fdo_seek(void *c, off64_t *o, int w) { fdo_t *f = c; if (fseeko(f->inner, *o, w)) return -1; *o = ftello(f->inner); f->given = (size_t)*o; return 0; }
static int fdo_close(void *c) { fdo_t *f = c; fclose(f->inner); fs_close(f->fd); free(f); return 0; }
FILE *sim_fdopen(int fd, const char *mode)
{
    fdo_t *f;
    cookie_io_functions_t io = { fdo_read, NULL, fdo_seek, fdo_close };
    node_t *n;
    sim_step();
    if (!simfs_is_fd(fd)) {
        if (fd >= SIMFD_BASE && fd < FS_FD_BASE) { errno = EINVAL; return NULL; }
        return fdopen(fd, mode);
    }
    if (!fsfd[fd - FS_FD_BASE].used) { errno = EBADF; return NULL; }
    if (fdopen_fail_at && ++fdopen_calls == fdopen_fail_at) { fault_fired(FC_OPEN, FO_EMFILE); probe_hit("fdopen_failed"); tr_printf("fdopen fd%d -> EMFILE", fd); errno = EMFILE; return NULL; }
    n = &nodes[fsfd[fd - FS_FD_BASE].node];
    f = calloc(1, sizeof(*f));
    f->inner = simfd_cookie_stream(n->data, n->len, 1, 0);
    f->fd = fd; f->total = n->len;
    tr_printf("fdopen fd%d len=%zu", fd, n->len);
    return fopencookie(f, "r", io);
}
int sim_access(const char *path, int amode)
{
    int i;
    sim_step();
    i = find_node(path);
    if (i < 0 || nodes[i].dangling) { errno = i >= 0 && nodes[i].dangling == 2 ? ELOOP : ENOENT; return -1; }
    if ((amode & R_OK) && !(nodes[i].mode & 0400)) { errno = EACCES; return -1; }
    return 0;
}
int sim_stat(const char *path, struct stat *st)
{
    int i;
    sim_step();
    i = find_node(path);
    if (i < 0) return -1;
    if (nodes[i].dangling) { probe_hit("stat_failed_for_a_listed_name"); tr_printf("stat %.60s -> %s (listed, cannot be followed)", path, nodes[i].dangling == 2 ? "ELOOP" : "ENOENT"); errno = nodes[i].dangling == 2 ? ELOOP : ENOENT; return -1; }      /* (what the caller's struct stat held before stays as it was) */
    memset(st, 0, sizeof(*st));
    st->st_mode = (mode_t)((nodes[i].isdir ? S_IFDIR : S_IFREG) | nodes[i].mode);
    st->st_size = (off_t)nodes[i].len;
    st->st_nlink = 1;
    return 0;
}
int sim_chdir(const char *path)
{
    int i;
    sim_step();
    i = find_node(path);
    if (i < 0) return -1;
    if (!nodes[i].isdir) { errno = ENOTDIR; return -1; }
    strcpy(cwd, nodes[i].path);
    tr_printf("chdir %.80s", cwd);
    return 0;
}
char *sim_getcwd(char *buf, size_t n)
{
    sim_step();
    if (!buf) return strdup(cwd);
    if (strlen(cwd) + 1 > n) { errno = ERANGE; return NULL; }
    strcpy(buf, cwd);
    return buf;
}
typedef struct { int idx[MAXNODES]; int n, pos, node; struct dirent de; } sdir_t;
static uint64_t dir_order_key(const char *path)
{
    uint64_t h = 1469598103934665603ULL ^ fs_seed;
    for (; *path; path++) { h ^= (unsigned char)*path; h *= 0x100000001b3ULL; }
    h ^= h >> 29; h *= 0xbf58476d1ce4e5b9ULL; h ^= h >> 32;
    return h;
}
void simfs_set_dir_grows(int on) { dir_grows = on; }
static void dir_snapshot(sdir_t *d);
/* the file that arrives in directory `node` between two passes over it (present != 0) and is gone again by the next opendir (present == 0) */
static void dir_arrival(int node, int present)
{
    char p[PATH_MAX];
    int k;
    snprintf(p, sizeof(p), "%s%sarrived-while-the-directory-was-being-read-%0120d.tmp", nodes[node].path, strcmp(nodes[node].path, "/") ? "/" : "", 7);
    k = find_node(p);
    if (present && k < 0) { if (add_node(p, "", 0, 0644, 0) >= 0) probe_hit("directory_grew_between_two_passes"); }
    else if (!present && k >= 0) { nodes[k].live = 0; }
}
DIR *sim_opendir(const char *path)
{
    int i;
    sdir_t *d;
    sim_step();
    i = find_node(path);
    if (i < 0) return NULL;
    if (!nodes[i].isdir) { errno = ENOTDIR; return NULL; }
    d = calloc(1, sizeof(*d));
    d->node = i;
    dir_arrival(i, 0);          /* a fresh look at the directory: the file that came in during an earlier second pass has gone again */
    dir_snapshot(d);
    open_dirs++;
    return (DIR *)d;
}
static void dir_snapshot(sdir_t *d)
{
    int i = d->node;
    size_t pl = strlen(nodes[i].path);
    d->n = 0; d->pos = 0;
    for (int k = 0; k < nnodes; k++) {
        const char *p = nodes[k].path;
        if (!nodes[k].live || k == i) continue;
        if (strncmp(p, nodes[i].path, pl)) continue;
        if (pl > 1 && p[pl] != '/') continue;
        if (strchr(p + (pl > 1 ? pl + 1 : 1), '/')) continue;
        d->idx[d->n++] = k;
    }
    /* listing order: seeded, but stable for an unchanged directory (as on a real file system) -- a per-run hash of each path */
    for (int a = 1; a < d->n; a++) {
        int t = d->idx[a], b = a;
        uint64_t ht = dir_order_key(nodes[t].path);
        while (b > 0 && dir_order_key(nodes[d->idx[b - 1]].path) > ht) { d->idx[b] = d->idx[b - 1]; b--; }
        d->idx[b] = t;
    }
}
/* rewinddir(): "causes the directory stream to refer to the current state of the directory".  With the knob dir.grows set, another process
   has put a file with a long name there in the meantime -- code that measured the listing in a first pass finds more in the second. */
void sim_rewinddir(DIR *dp)
{
    sdir_t *d = (sdir_t *)dp;
    sim_step();
    if (dir_grows) dir_arrival(d->node, 1);
    dir_snapshot(d);
    tr_printf("rewinddir %.60s -> %d entries", nodes[d->node].path, d->n);
}
struct dirent *sim_readdir(DIR *dp)
{
    sdir_t *d = (sdir_t *)dp;
    const char *base;
    sim_step();
    if (d->pos >= d->n) return NULL;
    base = strrchr(nodes[d->idx[d->pos]].path, '/');
    memset(&d->de, 0, sizeof(d->de));
    snprintf(d->de.d_name, sizeof(d->de.d_name), "%s", base ? base + 1 : "");
    d->de.d_type = nodes[d->idx[d->pos]].dangling ? DT_LNK : nodes[d->idx[d->pos]].isdir ? DT_DIR : DT_REG;
    d->pos++;
    return &d->de;
}
int sim_closedir(DIR *dp) { free(dp); open_dirs--; return 0; }

mode_t sim_umask(mode_t m) { mode_t o = cur_umask; cur_umask = m & 0777; return o; }
int sim_mkstemp(char *tmpl)
{
    size_t l = strlen(tmpl);
    int fd = -1, f, node;
    char p[PATH_MAX];
    sim_step();
    if (l < 6 || strcmp(tmpl + l - 6, "XXXXXX")) { errno = EINVAL; return -1; }
    f = fault_next(FC_OPEN);
    if (f >= 0 && (F_OUT(f) == FO_EMFILE || F_OUT(f) == FO_EACCES)) {
        fault_fired(FC_OPEN, F_OUT(f));
        errno = F_OUT(f) == FO_EMFILE ? EMFILE : EACCES;
        return -1;
    }
    /* out of descriptors: like the real call, fail before anything is created (a file left behind by a failing mkstemp would be counted
       against the caller at the end of the cycle) */
    { int any = 0; for (int i = 0; i < FS_FD_MAX - FS_FD_BASE; i++) if (!fsfd[i].used) { any = 1; break; } if (!any) { probe_hit("mkstemp_out_of_descriptors"); errno = EMFILE; return -1; } }
    for (;;) {
        static const char al[] = "abcdefghijklmnopqrstuvwxyzABCDEFGHIJKLMNOPQRSTUVWXYZ0123456789";
        int used = 0;
        for (int i = 0; i < 6; i++) tmpl[l - 6 + i] = al[rng_below(&frng, 62)];
        if (find_node(tmpl) >= 0) continue;
        /* an ideal mkstemp: never hands out a name twice in one run, so a repeated name can only be the caller's doing */
        norm(tmpl, p);
        for (int i = 0; i < never && !used; i++) if (!strcmp(ever_names[i], p)) used = 1;
        if (!used) break;
    }
    norm(tmpl, p);
    { char *slash = strrchr(p, '/'); if (slash && slash != p) { *slash = 0; if (find_node(p) < 0) { errno = ENOENT; return -1; } *slash = '/'; } }
    for (int i = 0; i < never; i++) if (!strcmp(ever_names[i], p)) simfs_tempfile_name_reused++;
    if (never < MAXEVER) ever_names[never++] = strdup(p);
    node = add_node(tmpl, "", 0, mkstemp_base_mode & ~(int)cur_umask, 0);
    if (node >= 0 && (nodes[node].mode & 077)) simfs_tempfile_bad_mode++;      /* readable by others from the moment it exists */
    if (node < 0) { errno = ENOSPC; return -1; }
    nodes[node].is_temp = 1;
    snprintf(last_temp, sizeof(last_temp), "%s", tmpl);
    for (int i = 0; i < FS_FD_MAX - FS_FD_BASE; i++) if (!fsfd[i].used) { fsfd[i].used = 1; fsfd[i].node = node; fd = i + FS_FD_BASE; break; }
    if (fd < 0) { errno = EMFILE; return -1; }
    simfs_tempfiles_created++;
    tr_printf("mkstemp %.80s mode=%o", tmpl, nodes[node].mode);
    return fd;
}
int sim_fchmod(int fd, mode_t m)
{
    sim_step();
    if (!simfs_is_fd(fd)) { if (fd >= SIMFD_BASE) { errno = EBADF; return -1; } return fchmod(fd, m); }
    if (!fsfd[fd - FS_FD_BASE].used) { errno = EBADF; return -1; }
    if (fchmod_fail_at && ++fchmod_calls == fchmod_fail_at) { probe_hit("fchmod_failed"); tr_printf("fchmod fd%d -> EPERM", fd); errno = EPERM; return -1; }
    nodes[fsfd[fd - FS_FD_BASE].node].mode = (int)(m & 0777);
    tr_printf("fchmod fd%d %o", fd, (unsigned)m);
    return 0;
}
/* near relatives of calls that are already simulated: the same thing under another name must not fall through to the real system */
int sim_mkostemp(char *tmpl, int flags) { (void)flags; return sim_mkstemp(tmpl); }
int sim_lstat(const char *path, struct stat *st)
{
    int i = find_node(path);
    if (i >= 0 && nodes[i].dangling) { memset(st, 0, sizeof(*st)); st->st_mode = S_IFLNK | 0777; st->st_nlink = 1; return 0; }
    return sim_stat(path, st);
}
long sim_random(void) { return (long)sim_rand(); }
void sim_srandom(unsigned s) { (void)s; }

const char *simfs_last_temp_name(void) { return last_temp; }
int simfs_is_temp(const char *path) { int i = find_node(path); return i >= 0 && nodes[i].is_temp; }
void simfs_tempfile_check_at_return(int fd)
{
    if (fd < 0) return;
    if (simfs_fd_mode(fd) != 0600) simfs_tempfile_bad_mode++;
}
int sim_remove(const char *path)
{
    int i;
    sim_step();
    i = find_node(path);
    if (i < 0) return -1;
    nodes[i].live = 0;
    tr_printf("remove %.80s", path);
    return 0;
}
int sim_unlink(const char *path)
{
    if (find_node(path) >= 0) return sim_remove(path);
    simfd_unlink_path(path);
    return 0;
}

/* simulated command interpreter: CMD [ARGS] [< IN] [> OUT]; commands: echo TEXT, cat FILE, big N, fail, true */
int sim_system(const char *cmd)
{
    char buf[4096], *out = NULL, *gt, *lt, *in = NULL;
    char *result = NULL; size_t rlen = 0;
    int rc = 0;
    sim_step();
    simfs_spawns++;
    snprintf(simfs_last_cmd, sizeof(simfs_last_cmd), "%.500s", cmd ? cmd : "(null)");
    tr_printf("system: %.200s", simfs_last_cmd);
    if (!cmd) return 1;
    snprintf(buf, sizeof(buf), "%s", cmd);
    gt = strrchr(buf, '>');
    if (gt) { *gt = 0; out = gt + 1; while (*out == ' ') out++; { char *e = out + strlen(out); while (e > out && e[-1] == ' ') *--e = 0; } }
    lt = strchr(buf, '<');
    if (lt) { *lt = 0; in = lt + 1; while (*in == ' ') in++; { char *e = in + strlen(in); while (e > in && e[-1] == ' ') *--e = 0; } }
    {
        char *c = buf;
        while (*c == ' ') c++;
        if (!strncmp(c, "echo ", 5)) {
            /* like a shell: arguments are split at blanks and printed separated by single spaces */
            const char *t = c + 5; int any = 0;
            result = malloc(strlen(t) + 2);
            while (*t) {
                while (*t == ' ' || *t == '\t') t++;
                if (!*t) break;
                if (any) result[rlen++] = ' ';
                while (*t && *t != ' ' && *t != '\t') result[rlen++] = *t++;
                any = 1;
            }
            result[rlen++] = '\n';
        }
        else if (!strncmp(c, "cat", 3)) {
            char *fn = c + 3; int i;
            while (*fn == ' ') fn++;
            { char *e = fn + strlen(fn); while (e > fn && e[-1] == ' ') *--e = 0; }
            if (!*fn && in) fn = in;
            i = find_node(fn);
            if (i >= 0 && !nodes[i].isdir) { rlen = nodes[i].len; result = malloc(rlen + 1); memcpy(result, nodes[i].data, rlen); } else rc = 256;
        } else if (!strncmp(c, "big ", 4)) {
            rlen = (size_t)atoi(c + 4); if (rlen > 100000) rlen = 100000;
            result = malloc(rlen + 1); memset(result, 'x', rlen);
        } else if (!strncmp(c, "fail", 4)) rc = 256;
        else if (!strncmp(c, "true", 4)) rc = 0;
        else rc = 127 << 8;
    }
    if (out && *out) {
        int i = find_node(out);
        if (i >= 0) { free(nodes[i].data); nodes[i].data = malloc(rlen + 1); if (rlen) memcpy(nodes[i].data, result, rlen); nodes[i].len = rlen; }
        else { simfs_add_file(out, result ? result : "", rlen, 0644 & ~(int)cur_umask); i = find_node(out); if (i >= 0) nodes[i].by_spawn = 1; }      /* a file the command line's redirection brought into being */
    }
    free(result);
    return rc;
}
FILE *sim_popen(const char *cmd, const char *mode) { (void)mode; simfs_spawns++; snprintf(simfs_last_cmd, sizeof(simfs_last_cmd), "popen:%.480s", cmd); errno = ENOSYS; return NULL; }
pid_t sim_fork(void) { simfs_spawns++; snprintf(simfs_last_cmd, sizeof(simfs_last_cmd), "fork"); errno = EAGAIN; return -1; }
int sim_execve(const char *p, char *const a[], char *const e[]) { (void)a; (void)e; simfs_spawns++; snprintf(simfs_last_cmd, sizeof(simfs_last_cmd), "exec:%.480s", p); errno = EACCES; return -1; }

/* ---- time / pid / rand ---- */
static uint64_t rand_state = 1;
void simenv_set_rand_seed(uint64_t s) { rand_state = s ? s : 1; }
time_t sim_time(time_t *t) { time_t v = (time_t)(1000000000 + R.clock_us / 1000000); if (t) *t = v; return v; }
pid_t sim_getpid(void) { return 4242; }
int sim_rand(void)
{
    int v;
    rand_state = rand_state * 6364136223846793005ULL + 1442695040888963407ULL;
    v = (int)((rand_state >> 33) & 0x7fffffff);
    /* (Returning RAND_MAX itself now and then -- legal, and never seen in a lifetime of real runs -- makes builtin_random() compute
       index n+1 through a float and yield nothing.  No given property says what %random yields, so this is not injected; see DESIGN.md 7.) */
    if ((rand_state >> 20) % 40 == 1) v = 0;
    return v;
}
void sim_srand(unsigned s) { (void)s; }   /* the run's seed decides the sequence; libast seeds from pid*time once per process (a function-static flag the simulator cannot reset) */
void sim_exit(int code)
{
    simenv_exit_called++;
    if (R.in_run) sim_fail("FATAL", "exit(%d) reached through the library", code);
    exit(code);
}

/* ---- name service ---- */
#define NS_MAX 16
static struct protoent protos[NS_MAX]; static char pnames[NS_MAX][24]; static int nprotos;
static struct servent servs[NS_MAX]; static char snames[NS_MAX][24], sprotos[NS_MAX][8]; static int nservs;
static char *noalias[1] = { NULL };
int simns_lookups;
void simns_reset(void) { nprotos = nservs = 0; simns_lookups = 0; }
void simns_add_proto(const char *name, int number)
{
    if (nprotos >= NS_MAX) return;
    snprintf(pnames[nprotos], 24, "%s", name);
    protos[nprotos].p_name = pnames[nprotos]; protos[nprotos].p_aliases = noalias; protos[nprotos].p_proto = number;
    nprotos++;
}
void simns_add_serv(const char *name, const char *proto, int port)
{
    if (nservs >= NS_MAX) return;
    snprintf(snames[nservs], 24, "%s", name); snprintf(sprotos[nservs], 8, "%s", proto);
    servs[nservs].s_name = snames[nservs]; servs[nservs].s_aliases = noalias; servs[nservs].s_port = htons((uint16_t)port); servs[nservs].s_proto = sprotos[nservs];
    nservs++;
}
/* as in a real libc, every function has ONE result object: a hit overwrites it, so a pointer kept from an earlier call reads the later
   answer; a miss leaves rubbish in it (legal: the contents are unspecified after any later call) */
static struct protoent proto_result; static char proto_result_name[24];
static struct servent serv_result; static char serv_result_name[24], serv_result_proto[8];
struct protoent *sim_getprotobyname(const char *name)
{
    sim_step(); simns_lookups++;
    for (int i = 0; i < nprotos; i++) if (!strcmp(pnames[i], name)) {
        tr_printf("getprotobyname %.20s -> %d", name, protos[i].p_proto);
        snprintf(proto_result_name, sizeof(proto_result_name), "%s", pnames[i]);
        proto_result = protos[i]; proto_result.p_name = proto_result_name;
        return &proto_result;
    }
    tr_printf("getprotobyname %.20s -> NULL", name);
    snprintf(proto_result_name, sizeof(proto_result_name), "?stale?"); proto_result.p_proto = -7777;
    return NULL;
}
struct servent *sim_getservbyname(const char *name, const char *proto)
{
    sim_step(); simns_lookups++;
    for (int i = 0; i < nservs; i++) if (!strcmp(snames[i], name) && (!proto || !strcmp(sprotos[i], proto))) {
        tr_printf("getservbyname %.20s/%s -> %d", name, proto ? proto : "*", ntohs((uint16_t)servs[i].s_port));
        snprintf(serv_result_name, sizeof(serv_result_name), "%s", snames[i]); snprintf(serv_result_proto, sizeof(serv_result_proto), "%s", sprotos[i]);
        serv_result = servs[i]; serv_result.s_name = serv_result_name; serv_result.s_proto = serv_result_proto;
        return &serv_result;
    }
    tr_printf("getservbyname %.20s/%s -> NULL", name, proto ? proto : "*");
    snprintf(serv_result_name, sizeof(serv_result_name), "?stale?"); snprintf(serv_result_proto, sizeof(serv_result_proto), "?old?"); serv_result.s_port = htons(7);
    return NULL;
}
struct hostent *sim_gethostbyname(const char *name) { (void)name; sim_step(); h_errno = HOST_NOT_FOUND; return NULL; }
struct hostent *sim_gethostbyaddr(const void *a, socklen_t l, int t) { (void)a; (void)l; (void)t; sim_step(); h_errno = HOST_NOT_FOUND; return NULL; }
