#ifndef SIMFD_H
#define SIMFD_H
#include <stddef.h>
#include <stdio.h>
#include <stdint.h>
#define SIMFD_BASE 500
#define SIMFD_MAX  900   /* 900..1023 belong to simfs (mkstemp descriptors) */
enum { KO_SRC = 1, KO_RAWSOCK, KO_LISTENER, KO_SOCK, KO_FILE };
enum { ORG_HARNESS = 0, ORG_SOCKET, ORG_ACCEPT, ORG_DUP, ORG_OPEN, ORG_MKSTEMP };

void simfd_reset(long rxcap);
int  simfd_new_src(int task, const void *data, size_t len, int seekable, int nonblock, size_t startpos); /* returns fd */
int  simfd_is_open(int task, int fd);
int  simfd_origin(int task, int fd);
uint32_t simfd_gen(int task, int fd);             /* creation generation, 0 if closed */
int  simfd_open_count(int task, int min_origin);  /* descriptors with origin >= min_origin */
int  simfd_describe_open(int task, char *buf, size_t n);
size_t simfd_src_pos(int task, int fd);
int  simfd_close_harness(int task, int fd);       /* close without fault injection / yield */
void simfd_unlink_path(const char *path);
int  simfd_peer_closed(int task, int fd);
size_t simfd_rx_pending(int task, int fd);

/* FILE* over simulated content: chunks/faults come from the current op's fault script (FC_READ) */
FILE *simfd_cookie_stream(const void *data, size_t len, int seekable, size_t startpos);
FILE *simfd_cookie_stream_unreadable(void);
#define SIMFD_TRANS_MAX 8
struct simfd_transient { int stream; size_t pos; };
extern struct simfd_transient simfd_transient_log[SIMFD_TRANS_MAX]; extern int simfd_ntransient;
int simfd_last_cookie_id(void);
extern int simfd_stream_transient; extern size_t simfd_last_cookie_pos;      /* FO_ETRANSIENT on a cookie stream: count so far, stream position at the last one */
uint32_t simfd_gen_now(void);
void simfd_set_select_eintr(int k);
void simfd_set_base(int b);      /* 0: simulated descriptors are numbered from 0 (standard descriptors closed); anything else: from SIMFD_BASE */
FILE *simfd_fd_stream(int fd);      /* stdio stream over a simulated descriptor (fileno() works, stdio reads ahead) */
int   simfd_open_streams(void);                   /* census of cookie streams not yet closed */
extern uint64_t simfd_stat_cookie_reads, simfd_stat_cookie_short;

/* libc entry points as seen by libast objects */
ssize_t sim_read(int fd, void *buf, size_t n);
ssize_t sim_write(int fd, const void *buf, size_t n);
int sim_close(int fd);
int sim_dup(int fd);
off_t sim_lseek(int fd, off_t off, int whence);
int sim_fcntl(int fd, int cmd, ...);
int simfd_conn_id(int task, int fd);
int simfd_conn_role(int task, int fd);
uint64_t simfd_tx_total(int task, int fd);
uint64_t simfd_rx_total(int task, int fd);
int simfd_nonblocking(int task, int fd);
size_t simfd_conn_txlog(int cid, int role, const unsigned char **p);
extern uint64_t simfd_progress;
extern int simfd_hard_error_t[], simfd_eagain_t[];
extern long simfd_last_read_t[];       /* per task: how its most recent read() on a simulated descriptor ended (>0 data, 0 EOF, <0 -errno) */
#define simfd_eagain (simfd_eagain_t[task_current()])
#define simfd_hard_error (simfd_hard_error_t[task_current()])
int simfs_is_fd(int fd);
int simfs_close(int fd);
#endif
