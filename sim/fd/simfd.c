/* simfd: simulated descriptors (byte sources, AF_UNIX stream sockets), cookie FILE streams.
 * Descriptor numbers 500..1023 are simulated (per-task tables, lowest-free numbering);
 * anything else passes through to the real call. */
#define _GNU_SOURCE
#include "sim.h"
#include "simfd.h"
#include "simfs.h"
#include "simtask.h"
#include <stdlib.h>
#include <string.h>
#include <errno.h>
#include <unistd.h>
#include <fcntl.h>
#include <sys/socket.h>
#include <sys/un.h>
#include <sys/select.h>
#include <poll.h>
#include <sys/time.h>

typedef struct kobj {
    int type, refs;
    int flags;                      /* O_NONBLOCK etc. (file status flags, shared by dups) */
    /* SRC / FILE */
    unsigned char *data; size_t len, pos; int seekable;
    /* sockets */
    char path[108]; int bound;
    struct kobj *peer; int peer_closed; int shut;
    unsigned char *rx; size_t rxhead, rxlen, rxalloc, rxcap;
    struct kobj *backlog[16]; int nbacklog, backlog_max;
    int listening_closed;
    int conn_id, role;              /* role 0 = connecting side, 1 = accepted side */
    uint64_t tx_total, rx_total;    /* bytes accepted from / delivered to this endpoint */
    unsigned char *txlog; size_t txlog_cap;   /* every byte this endpoint handed to the kernel, in order */
} kobj_t;

typedef struct { kobj_t *k; int origin; uint32_t gen; } fdent_t;
static fdent_t fdt[TASK_MAX][SIMFD_MAX - SIMFD_BASE];
static uint32_t gen_counter;
uint32_t simfd_gen_now(void) { return gen_counter; }      /* generations above this value were opened later */
static long default_rxcap = 4096;
#define MAXPATHS 32
static struct { char path[108]; kobj_t *owner; } bound_paths[MAXPATHS];
static int nbound;
static kobj_t *allk[4096]; static int nallk;
uint64_t simfd_stat_cookie_reads, simfd_stat_cookie_short;
static int cookie_ids;                      /* streams made so far in this run: a stream's number */
struct simfd_transient simfd_transient_log[SIMFD_TRANS_MAX]; int simfd_ntransient;      /* which stream failed once, and where it stood */
int simfd_last_cookie_id(void) { return cookie_ids; }
int simfd_stream_transient;          /* transient read failures of cookie streams so far in this run */
size_t simfd_last_cookie_pos;        /* where the stream stood when the last of them happened */

uint64_t simfd_progress;            /* bumped on every kernel state change */
int simfd_eagain_t[TASK_MAX];        /* per task: a read/write returned EAGAIN since the flag was cleared */
int simfd_hard_error_t[TASK_MAX];    /* per task: last op saw EPIPE/EIO/EBADF/ENOTCONN */
static int conn_counter;
#define MAXCONNS 64
static kobj_t *conn_end[MAXCONNS][2];

/* descriptor numbers: normally SIMFD_BASE upwards, so that any other number passes through to the real call.  A run may move the
   base to 0 (simfd_set_base): a process whose standard descriptors are closed gets 0, 1 and 2 from socket(), accept() and dup(),
   and `fd > 0` is not the same test as `fd >= 0`.  The table size stays the same. */
static int fd_base = SIMFD_BASE;
static int select_eintr_at, select_sleeps;      /* the k-th pure-sleep select() of the run is interrupted (0 = never) */
void simfd_set_select_eintr(int k) { select_eintr_at = k; select_sleeps = 0; }
void simfd_set_base(int b) { fd_base = b == 0 ? 0 : SIMFD_BASE; }
static int is_sim(int fd) { return fd >= fd_base && fd < fd_base + (SIMFD_MAX - SIMFD_BASE); }
static fdent_t *ent(int fd) { return is_sim(fd) ? &fdt[task_current()][fd - fd_base] : NULL; }
static fdent_t *ent_t(int task, int fd) { return is_sim(fd) ? &fdt[task][fd - fd_base] : NULL; }

static kobj_t *knew(int type)
{
    kobj_t *k = calloc(1, sizeof(*k));
    k->type = type;
    k->rxcap = (size_t)default_rxcap;
    if (nallk < 4096) allk[nallk++] = k;
    return k;
}

void simfd_reset(long rxcap)
{
    for (int i = 0; i < nallk; i++) { free(allk[i]->data); free(allk[i]->rx); free(allk[i]->txlog); free(allk[i]); }
    memset(conn_end, 0, sizeof(conn_end));
    nallk = 0;
    memset(fdt, 0, sizeof(fdt));
    gen_counter = 0;
    nbound = 0;
    conn_counter = 0; simfd_progress = 0; memset(simfd_hard_error_t, 0, sizeof(simfd_hard_error_t)); memset(simfd_eagain_t, 0, sizeof(simfd_eagain_t));
    default_rxcap = rxcap > 0 ? rxcap : 4096;
    fd_base = SIMFD_BASE; select_eintr_at = select_sleeps = 0;
    simfd_stream_transient = 0; simfd_last_cookie_pos = 0; cookie_ids = 0; simfd_ntransient = 0;
}

static int fd_alloc(int task, kobj_t *k, int origin)
{
    for (int i = 0; i < SIMFD_MAX - SIMFD_BASE; i++) {
        if (!fdt[task][i].k) {
            fdt[task][i].k = k; fdt[task][i].origin = origin; fdt[task][i].gen = ++gen_counter;
            k->refs++;
            return i + fd_base;
        }
    }
    return -1;
}

int simfd_new_src(int task, const void *data, size_t len, int seekable, int nonblock, size_t startpos)
{
    kobj_t *k = knew(seekable ? KO_FILE : KO_SRC);
    k->data = malloc(len + 1);
    if (len) memcpy(k->data, data, len);
    k->len = len; k->pos = startpos > len ? len : startpos; k->seekable = seekable;
    if (nonblock) k->flags |= O_NONBLOCK;
    return fd_alloc(task, k, ORG_HARNESS);
}
int simfd_is_open(int task, int fd) { fdent_t *e = ent_t(task, fd); return e && e->k; }
int simfd_origin(int task, int fd) { fdent_t *e = ent_t(task, fd); return e && e->k ? e->origin : -1; }
uint32_t simfd_gen(int task, int fd) { fdent_t *e = ent_t(task, fd); return e && e->k ? e->gen : 0; }
size_t simfd_src_pos(int task, int fd) { fdent_t *e = ent_t(task, fd); return e && e->k ? e->k->pos : 0; }
int simfd_peer_closed(int task, int fd) { fdent_t *e = ent_t(task, fd); return e && e->k ? e->k->peer_closed : 1; }
size_t simfd_rx_pending(int task, int fd) { fdent_t *e = ent_t(task, fd); return e && e->k ? e->k->rxlen : 0; }
int simfd_conn_id(int task, int fd) { fdent_t *e = ent_t(task, fd); return e && e->k && (e->k->type == KO_SOCK || e->k->type == -KO_SOCK) ? e->k->conn_id : 0; }
int simfd_conn_role(int task, int fd) { fdent_t *e = ent_t(task, fd); return e && e->k ? e->k->role : 0; }
uint64_t simfd_tx_total(int task, int fd) { fdent_t *e = ent_t(task, fd); return e && e->k ? e->k->tx_total : 0; }
uint64_t simfd_rx_total(int task, int fd) { fdent_t *e = ent_t(task, fd); return e && e->k ? e->k->rx_total : 0; }
int simfd_nonblocking(int task, int fd) { fdent_t *e = ent_t(task, fd); return e && e->k ? !!(e->k->flags & O_NONBLOCK) : 0; }
size_t simfd_conn_txlog(int cid, int role, const unsigned char **p)
{
    kobj_t *k = (cid > 0 && cid < MAXCONNS) ? conn_end[cid][role & 1] : NULL;
    if (!k) { *p = NULL; return 0; }
    *p = k->txlog;
    return (size_t)k->tx_total;
}
int simfd_open_count(int task, int min_origin)
{
    int n = 0;
    for (int i = 0; i < SIMFD_MAX - SIMFD_BASE; i++) if (fdt[task][i].k && fdt[task][i].origin >= min_origin) n++;
    return n;
}
int simfd_describe_open(int task, char *buf, size_t n)
{
    static const char *on[] = { "harness", "socket", "accept", "dup", "open", "mkstemp" };
    size_t k = 0; int cnt = 0;
    if (n) buf[0] = 0;
    for (int i = 0; i < SIMFD_MAX - SIMFD_BASE; i++) if (fdt[task][i].k && fdt[task][i].origin != ORG_HARNESS) {
        cnt++;
        if (k + 32 < n) k += (size_t)snprintf(buf + k, n - k, "[fd %d from %s()]", i + fd_base, on[fdt[task][i].origin]);
    }
    return cnt;
}

static void unbind_owner(kobj_t *k) { (void)k; /* a bound path stays in the "file system" until unlinked */ }
void simfd_unlink_path(const char *path)
{
    for (int i = 0; i < nbound; i++) if (!strcmp(bound_paths[i].path, path)) { bound_paths[i] = bound_paths[--nbound]; return; }
}

static void teardown(kobj_t *k)
{
    if (k->type == KO_SOCK) {
        if (k->peer) { k->peer->peer_closed = 1; k->peer->peer = NULL; }
        k->peer = NULL;
    } else if (k->type == KO_LISTENER) {
        for (int i = 0; i < k->nbacklog; i++) {
            kobj_t *s = k->backlog[i];             /* never-accepted server end: connection reset */
            if (s->peer) { s->peer->peer_closed = 1; s->peer->peer = NULL; }
            s->peer = NULL;
        }
        k->nbacklog = 0;
        k->listening_closed = 1;
    }
    unbind_owner(k);
    k->type = -k->type;     /* dead */
}
static int do_close(int task, int fd)
{
    fdent_t *e = ent_t(task, fd);
    kobj_t *k;
    if (!e || !e->k) { errno = EBADF; return -1; }
    k = e->k;
    e->k = NULL; e->origin = 0; e->gen = 0;
    if (--k->refs == 0) teardown(k);
    simfd_progress++;
    return 0;
}
int simfd_close_harness(int task, int fd) { return do_close(task, fd); }

/* ------------------------------------------------------------------ read */
static int readable_now(void *arg)
{
    kobj_t *k = arg;
    return k->rxlen > 0 || k->peer_closed || k->type < 0;
}
static int writable_now(void *arg)
{
    kobj_t *k = arg;   /* k = the writer */
    return k->peer_closed || !k->peer || k->peer->rxlen < k->peer->rxcap;
}
static int acceptable_now(void *arg)
{
    kobj_t *k = arg;
    return k->nbacklog > 0 || k->type < 0;
}

static int progressed(void *arg) { return simfd_progress != *(uint64_t *)arg; }
/* natural EAGAIN on a non-blocking descriptor: the caller will retry, so park the task until any kernel
 * state changes (equivalent to the scheduler not picking it while nothing can change) */
static void wait_for_progress(void)
{
    static uint64_t snap[TASK_MAX];
    uint64_t *p = &snap[task_current()];
    *p = simfd_progress;
    if (task_active()) task_block(progressed, p, -1);
}

/* how the most recent read() of each task on a simulated descriptor ended: > 0 data, 0 end of file, < 0 -errno */
long simfd_last_read_t[TASK_MAX];
static ssize_t sim_read_impl(int fd, void *buf, size_t n);
ssize_t sim_read(int fd, void *buf, size_t n)
{
    ssize_t r;
    if (!is_sim(fd)) return read(fd, buf, n);
    r = sim_read_impl(fd, buf, n);
    simfd_last_read_t[task_current()] = r < 0 ? -(long)errno : (long)r;
    return r;
}
static ssize_t sim_read_impl(int fd, void *buf, size_t n)
{
    fdent_t *e;
    kobj_t *k;
    int f, out;
    size_t avail, take;
    sim_step();
    task_yield();
    e = ent(fd);
    if (!e || !e->k) { errno = EBADF; return -1; }
    k = e->k;
    if (k->type == KO_LISTENER || k->type == KO_RAWSOCK) { errno = k->type == KO_LISTENER ? EINVAL : ENOTCONN; return -1; }
    f = fault_next(FC_READ);
    out = f < 0 ? FO_FULL : F_OUT(f);
    if (k->type == KO_FILE && (out == FO_SHORT || out == FO_EINTR || out == FO_EAGAIN)) out = FO_FULL;
    if (out == FO_EAGAIN && !(k->flags & O_NONBLOCK)) out = FO_FULL;
    if (out == FO_EINTR) { fault_fired(FC_READ, FO_EINTR); tr_printf("read fd%d -> EINTR", fd); errno = EINTR; return -1; }
    if (out == FO_EAGAIN) { fault_fired(FC_READ, FO_EAGAIN); simfd_eagain_t[task_current()] = 1; tr_printf("read fd%d -> EAGAIN", fd); errno = EAGAIN; return -1; }
    if (out == FO_EIO) { fault_fired(FC_READ, FO_EIO); simfd_hard_error_t[task_current()] = 1; tr_printf("read fd%d -> EIO", fd); errno = EIO; return -1; }
    if (k->type == KO_SRC || k->type == KO_FILE) {
        avail = k->len - k->pos;
        take = n < avail ? n : avail;
        if (out == FO_SHORT && take > 1) {
            size_t lim = (size_t)F_PARAM(f);
            if (lim < 1) lim = 1;
            if (lim < take) { take = lim; fault_fired(FC_READ, FO_SHORT); }
        }
        if (take == 0 && avail == 0 && (k->flags & O_NONBLOCK) && k->type == KO_SRC && k->shut == 0) {
            /* non-blocking source that stays open (like a socket whose peer is alive): no data = EAGAIN */
            simfd_eagain_t[task_current()] = 1;
            tr_printf("read fd%d -> EAGAIN(drained)", fd);
            errno = EAGAIN;
            return -1;
        }
        if (take) memcpy(buf, k->data + k->pos, take);
        k->pos += take;
        tr_printf("read fd%d n=%zu -> %zu", fd, n, take);
        return (ssize_t)take;
    }
    /* connected socket */
    if (k->rxlen == 0) {
        if (k->peer_closed) { tr_printf("read fd%d -> EOF", fd); return 0; }
        if (k->flags & O_NONBLOCK) { tr_printf("read fd%d -> EAGAIN(empty)", fd); errno = EAGAIN; return -1; }
        task_block(readable_now, k, -1);
        if (!e->k || e->k != k) { errno = EBADF; return -1; }
        if (k->rxlen == 0) { tr_printf("read fd%d -> EOF", fd); return 0; }
    }
    take = n < k->rxlen ? n : k->rxlen;
    if (out == FO_SHORT && take > 1) {
        size_t lim = (size_t)F_PARAM(f);
        if (lim < 1) lim = 1;
        if (lim < take) { take = lim; fault_fired(FC_READ, FO_SHORT); }
    }
    memcpy(buf, k->rx + k->rxhead, take);
    k->rxhead += take; k->rxlen -= take; k->rx_total += take; simfd_progress++;
    if (k->rxlen == 0) k->rxhead = 0;
    tr_printf("read fd%d n=%zu -> %zu", fd, n, take);
    return (ssize_t)take;
}

/* ------------------------------------------------------------------ write */
static void rx_push(kobj_t *k, const unsigned char *p, size_t n)
{
    if (k->rxhead + k->rxlen + n > k->rxalloc) {
        size_t need = k->rxlen + n, na = need * 2 + 64;
        unsigned char *nb = malloc(na);
        if (k->rxlen) memcpy(nb, k->rx + k->rxhead, k->rxlen);
        free(k->rx);
        k->rx = nb; k->rxalloc = na; k->rxhead = 0;
    }
    memcpy(k->rx + k->rxhead + k->rxlen, p, n);
    k->rxlen += n;
}

ssize_t sim_write(int fd, const void *buf, size_t n)
{
    fdent_t *e;
    kobj_t *k;
    int f, out;
    size_t space, take;
    if (!is_sim(fd)) return write(fd, buf, n);
    sim_step();
    task_yield();
    e = ent(fd);
    if (!e || !e->k) { errno = EBADF; simfd_hard_error_t[task_current()] = 1; tr_printf("write fd%d -> EBADF", fd); return -1; }
    k = e->k;
    if (k->type != KO_SOCK) { errno = k->type == KO_RAWSOCK ? ENOTCONN : EINVAL; simfd_hard_error_t[task_current()] = 1; tr_printf("write fd%d -> ENOTCONN", fd); return -1; }
    f = fault_next(FC_WRITE);
    out = f < 0 ? FO_FULL : F_OUT(f);
    if (out == FO_EAGAIN && !(k->flags & O_NONBLOCK)) out = FO_FULL;
    if (out == FO_EINTR) { fault_fired(FC_WRITE, FO_EINTR); tr_printf("write fd%d -> EINTR", fd); errno = EINTR; return -1; }
    if (out == FO_EAGAIN) { fault_fired(FC_WRITE, FO_EAGAIN); tr_printf("write fd%d -> EAGAIN", fd); errno = EAGAIN; return -1; }
    if (out == FO_EIO) { fault_fired(FC_WRITE, FO_EIO); simfd_hard_error_t[task_current()] = 1; tr_printf("write fd%d -> EIO", fd); errno = EIO; return -1; }
    if (k->peer_closed || !k->peer) { fault_fired(FC_WRITE, FO_EPIPE); simfd_hard_error_t[task_current()] = 1; tr_printf("write fd%d -> EPIPE", fd); errno = EPIPE; return -1; }
    space = k->peer->rxcap > k->peer->rxlen ? k->peer->rxcap - k->peer->rxlen : 0;
    if (space == 0) {
        if (k->flags & O_NONBLOCK) {
            fault_fired(FC_WRITE, FO_EAGAIN); probe_hit("natural_eagain_on_write");
            tr_printf("write fd%d -> EAGAIN(full)", fd);
            wait_for_progress();
            errno = EAGAIN;
            return -1;
        }
        task_block(writable_now, k, -1);
        if (!e->k || e->k != k) { errno = EBADF; simfd_hard_error_t[task_current()] = 1; return -1; }
        if (k->peer_closed || !k->peer) { errno = EPIPE; simfd_hard_error_t[task_current()] = 1; tr_printf("write fd%d -> EPIPE", fd); return -1; }
        space = k->peer->rxcap - k->peer->rxlen;
    }
    take = n < space ? n : space;
    if (out == FO_SHORT && take > 1) {
        size_t lim = (size_t)F_PARAM(f);
        if (lim < 1) lim = 1;
        if (lim < take) take = lim;
    }
    if (take < n) fault_fired(FC_WRITE, FO_SHORT);
    rx_push(k->peer, buf, take);
    if (k->tx_total + take > k->txlog_cap) { k->txlog_cap = (k->tx_total + take) * 2 + 256; k->txlog = realloc(k->txlog, k->txlog_cap); }
    memcpy(k->txlog + k->tx_total, buf, take);
    k->tx_total += take; simfd_progress++;
    tr_printf("write fd%d n=%zu -> %zu", fd, n, take);
    return (ssize_t)take;
}

/* ------------------------------------------------------------------ close / dup / lseek / fcntl */
int sim_close(int fd)
{
    int f, out, rc;
    if (simfs_is_fd(fd)) { sim_step(); return simfs_close(fd); }
    if (!is_sim(fd)) return close(fd);
    sim_step();
    task_yield();
    f = fault_next(FC_CLOSE);
    out = f < 0 ? FO_FULL : F_OUT(f);
    rc = do_close(task_current(), fd);
    if (rc == 0 && out == FO_EINTR) {
        /* Linux semantics: the descriptor is released although close() reports EINTR */
        fault_fired(FC_CLOSE, FO_EINTR);
        tr_printf("close fd%d -> EINTR (released)", fd);
        errno = EINTR;
        return -1;
    }
    tr_printf("close fd%d -> %d", fd, rc);
    return rc;
}
int sim_dup(int fd)
{
    fdent_t *e;
    int f, nfd;
    if (!is_sim(fd)) return dup(fd);
    sim_step();
    task_yield();
    e = ent(fd);
    if (!e || !e->k) { errno = EBADF; return -1; }
    f = fault_next(FC_OPEN);
    if (f >= 0 && F_OUT(f) == FO_EMFILE) { fault_fired(FC_OPEN, FO_EMFILE); errno = EMFILE; tr_printf("dup fd%d -> EMFILE", fd); return -1; }
    nfd = fd_alloc(task_current(), e->k, ORG_DUP);
    tr_printf("dup fd%d -> %d", fd, nfd);
    return nfd;
}
off_t sim_lseek(int fd, off_t off, int whence)
{
    fdent_t *e;
    kobj_t *k;
    off_t np;
    if (!is_sim(fd)) return lseek(fd, off, whence);
    sim_step();
    e = ent(fd);
    if (!e || !e->k) { errno = EBADF; return -1; }
    k = e->k;
    if (k->type != KO_FILE) { errno = ESPIPE; return -1; }
    np = whence == SEEK_SET ? off : whence == SEEK_CUR ? (off_t)k->pos + off : (off_t)k->len + off;
    if (np < 0) { errno = EINVAL; return -1; }
    k->pos = (size_t)np;
    if (k->pos > k->len) k->pos = k->len;   /* our files are not extended by reads */
    return np;
}
int sim_fcntl(int fd, int cmd, ...)
{
    va_list ap;
    long arg;
    fdent_t *e;
    va_start(ap, cmd);
    arg = va_arg(ap, long);
    va_end(ap);
    if (!is_sim(fd)) return fcntl(fd, cmd, arg);
    sim_step();
    e = ent(fd);
    if (!e || !e->k) { errno = EBADF; return -1; }
    if (cmd == F_GETFL) return e->k->flags | O_RDWR;
    if (cmd == F_SETFL) { simfd_progress++; e->k->flags = (int)arg & (O_NONBLOCK | O_APPEND); tr_printf("fcntl fd%d nonblock=%d", fd, !!(arg & O_NONBLOCK)); return 0; }
    if (cmd == F_GETFD || cmd == F_SETFD) return 0;
    if (cmd == F_DUPFD || cmd == F_DUPFD_CLOEXEC) return sim_dup(fd);      /* (the lowest-number argument is not honoured: simulated numbers are handed out in order anyway) */
    errno = EINVAL;
    return -1;
}

/* ------------------------------------------------------------------ sockets */
int sim_socket(int fam, int type, int proto)
{
    int f, fd;
    sim_step();
    task_yield();
    (void)proto;
    f = fault_next(FC_SOCKET);
    if (f >= 0 && F_OUT(f) == FO_EMFILE) { fault_fired(FC_SOCKET, FO_EMFILE); tr_printf("socket -> EMFILE"); errno = EMFILE; return -1; }
    if (fam != AF_UNIX || (type & 0xf) != SOCK_STREAM) { tr_printf("socket fam=%d type=%d -> EAFNOSUPPORT", fam, type); errno = EAFNOSUPPORT; return -1; }
    fd = fd_alloc(task_current(), knew(KO_RAWSOCK), ORG_SOCKET);
    tr_printf("socket -> %d", fd);
    return fd;
}
int sim_bind(int fd, const struct sockaddr *addr, socklen_t len)
{
    fdent_t *e = ent(fd);
    const struct sockaddr_un *un = (const struct sockaddr_un *)addr;
    sim_step();
    task_yield();
    (void)len;
    if (!e || !e->k) { errno = EBADF; return -1; }
    if (e->k->type != KO_RAWSOCK || e->k->bound) { errno = EINVAL; return -1; }
    { int f = fault_next(FC_BIND);       /* scripted: the address is taken by a process outside the simulation, or the directory is not writable */
      if (f >= 0 && (F_OUT(f) == FO_EADDRINUSE || F_OUT(f) == FO_EACCES)) {
          fault_fired(FC_BIND, F_OUT(f)); tr_printf("bind fd%d -> %s (scripted)", fd, fo_names[F_OUT(f)]);
          errno = F_OUT(f) == FO_EACCES ? EACCES : EADDRINUSE; return -1; } }
    for (int i = 0; i < nbound; i++) if (!strncmp(bound_paths[i].path, un->sun_path, 107)) { tr_printf("bind fd%d -> EADDRINUSE", fd); errno = EADDRINUSE; return -1; }
    if (nbound >= MAXPATHS) { errno = ENOSPC; return -1; }
    snprintf(bound_paths[nbound].path, 108, "%.107s", un->sun_path);
    bound_paths[nbound++].owner = e->k;
    snprintf(e->k->path, 108, "%.107s", un->sun_path);
    e->k->bound = 1; simfd_progress++;
    tr_printf("bind fd%d %s", fd, e->k->path);
    return 0;
}
int sim_listen(int fd, int n)
{
    fdent_t *e = ent(fd);
    sim_step();
    task_yield();
    if (!e || !e->k) { errno = EBADF; return -1; }
    if (e->k->type != KO_RAWSOCK && e->k->type != KO_LISTENER) { errno = EOPNOTSUPP; return -1; }
    if (!e->k->bound) { errno = EINVAL; return -1; }      /* AF_UNIX: listen on an unbound socket fails */
    { int f = fault_next(FC_LISTEN);
      if (f >= 0 && F_OUT(f) == FO_EADDRINUSE) { fault_fired(FC_LISTEN, FO_EADDRINUSE); tr_printf("listen fd%d -> EADDRINUSE (scripted)", fd); errno = EADDRINUSE; return -1; } }
    e->k->type = KO_LISTENER;
    e->k->backlog_max = n < 1 ? 1 : n > 15 ? 15 : n; simfd_progress++;
    tr_printf("listen fd%d", fd);
    return 0;
}
static int backlog_room(void *arg) { kobj_t *l = arg; return l->type < 0 || l->nbacklog <= l->backlog_max; }
int sim_connect(int fd, const struct sockaddr *addr, socklen_t len)
{
    fdent_t *e = ent(fd);
    const struct sockaddr_un *un = (const struct sockaddr_un *)addr;
    kobj_t *l = NULL, *srv, *k;
    sim_step();
    task_yield();
    (void)len;
    if (!e || !e->k) { errno = EBADF; return -1; }
    k = e->k;
    if (!addr) { errno = EFAULT; return -1; }
    if (k->type == KO_SOCK) { errno = EISCONN; return -1; }
    if (k->type != KO_RAWSOCK) { errno = EINVAL; return -1; }
    for (int i = 0; i < nbound; i++) if (!strncmp(bound_paths[i].path, un->sun_path, 107)) l = bound_paths[i].owner;
    { int f = fault_next(FC_CONNECT);
      if (f >= 0 && F_OUT(f) == FO_ECONNREFUSED) { fault_fired(FC_CONNECT, FO_ECONNREFUSED); tr_printf("connect fd%d -> ECONNREFUSED (scripted)", fd); errno = ECONNREFUSED; return -1; } }
    if (!l) { tr_printf("connect fd%d -> ENOENT", fd); errno = ENOENT; return -1; }
    if (l->type != KO_LISTENER) { tr_printf("connect fd%d -> ECONNREFUSED", fd); errno = ECONNREFUSED; return -1; }
    if (l->nbacklog > l->backlog_max) {
        if (k->flags & O_NONBLOCK) { errno = EAGAIN; return -1; }
        task_block(backlog_room, l, -1);
        if (l->type != KO_LISTENER) { errno = ECONNREFUSED; return -1; }
    }
    srv = knew(KO_SOCK);
    srv->peer = k; k->peer = srv;
    k->type = KO_SOCK;
    k->conn_id = srv->conn_id = ++conn_counter; k->role = 0; srv->role = 1; simfd_progress++;
    if (conn_counter < MAXCONNS) { conn_end[conn_counter][0] = k; conn_end[conn_counter][1] = srv; }
    l->backlog[l->nbacklog++] = srv;
    tr_printf("connect fd%d -> ok", fd);
    return 0;
}
int sim_accept(int fd, struct sockaddr *addr, socklen_t *len)
{
    fdent_t *e;
    kobj_t *l, *srv;
    int f, out, nfd;
    sim_step();
    task_yield();
    e = ent(fd);
    if (!e || !e->k) { errno = EBADF; tr_printf("accept fd%d -> EBADF", fd); return -1; }
    l = e->k;
    if (l->type != KO_LISTENER) { errno = EINVAL; tr_printf("accept fd%d -> EINVAL", fd); return -1; }
    f = fault_next(FC_ACCEPT);
    out = f < 0 ? FO_FULL : F_OUT(f);
    if (out == FO_EAGAIN && !(l->flags & O_NONBLOCK)) out = FO_FULL;
    if (out == FO_EINTR || out == FO_EMFILE || out == FO_EAGAIN) {
        static const int en[] = { [FO_EINTR] = EINTR, [FO_EMFILE] = EMFILE, [FO_EAGAIN] = EAGAIN };
        fault_fired(FC_ACCEPT, out);
        tr_printf("accept fd%d -> %s", fd, fo_names[out]);
        errno = en[out];
        return -1;
    }
    if (l->nbacklog == 0) {
        if (l->flags & O_NONBLOCK) {
            probe_hit("natural_eagain_on_accept");
            tr_printf("accept fd%d -> EAGAIN(empty)", fd);
            wait_for_progress();
            errno = EAGAIN;
            return -1;
        }
        task_block(acceptable_now, l, -1);
        if (l->type != KO_LISTENER || !e->k) { errno = EBADF; return -1; }
    }
    srv = l->backlog[0];
    memmove(&l->backlog[0], &l->backlog[1], (size_t)(l->nbacklog - 1) * sizeof(kobj_t *));
    l->nbacklog--;
    if (out == FO_ECONNABORTED) {
        /* the pending connection is dropped; the client sees a reset */
        fault_fired(FC_ACCEPT, out);
        if (srv->peer) { srv->peer->peer_closed = 1; srv->peer->peer = NULL; }
        srv->peer = NULL; srv->type = -KO_SOCK; simfd_progress++;
        tr_printf("accept fd%d -> ECONNABORTED", fd);
        errno = ECONNABORTED;
        return -1;
    }
    nfd = fd_alloc(task_current(), srv, ORG_ACCEPT);
    simfd_progress++;
    if (addr && len && *len >= sizeof(sa_family_t)) {
        /* unbound AF_UNIX peer: the kernel returns only the family */
        addr->sa_family = AF_UNIX;
        *len = sizeof(sa_family_t);
    }
    tr_printf("accept fd%d -> %d", fd, nfd);
    return nfd;
}
int sim_select(int nfds, fd_set *r, fd_set *w, fd_set *x, struct timeval *tv)
{
    int n = 0;
    sim_step();
    if (nfds <= 0 || (!r && !w && !x)) {
        int64_t us = tv ? (int64_t)tv->tv_sec * 1000000 + tv->tv_usec : 0;
        probe_hit("select_sleep");
        if (select_eintr_at && ++select_sleeps == select_eintr_at) {
            /* a wait is as interruptible as a write: part of the time passes, then a signal arrives */
            tr_printf("select sleep %lld us -> EINTR", (long long)us);
            probe_hit("select_interrupted");
            task_sleep_us(us / 2);
            errno = EINTR;
            return -1;
        }
        tr_printf("select sleep %lld us", (long long)us);
        task_sleep_us(us);
        return 0;
    }
    task_yield();
    for (int fd = 0; fd < nfds; fd++) {
        fdent_t *e = ent(fd);
        int rr = r && FD_ISSET(fd, r), ww = w && FD_ISSET(fd, w);
        if (!rr && !ww) continue;
        if (!is_sim(fd)) continue;
        if (!e || !e->k) { errno = EBADF; return -1; }
        if (rr) {
            int ok = e->k->type == KO_LISTENER ? e->k->nbacklog > 0 : e->k->type == KO_SOCK ? readable_now(e->k) : e->k->type != KO_RAWSOCK;
            if (ok) n++; else FD_CLR(fd, r);
        }
        if (ww) {
            int ok = e->k->type == KO_SOCK ? writable_now(e->k) : 0;
            if (ok) n++; else FD_CLR(fd, w);
        }
    }
    if (x) FD_ZERO(x);
    return n;
}

/* poll(): the same readiness rules as select() above, for libraries that prefer it.  Nothing ready and a timeout: the simulated clock advances
   by the timeout (all of it; nobody wakes a poller early in this simulator) and 0 is returned; descriptors that are not simulated are
   reported as not open. */
int sim_poll(struct pollfd *fds, nfds_t nfds, int timeout_ms)
{
    int n = 0;
    sim_step();
    task_yield();
    for (nfds_t i = 0; i < nfds; i++) {
        fdent_t *e;
        fds[i].revents = 0;
        if (fds[i].fd < 0) continue;
        e = is_sim(fds[i].fd) ? ent(fds[i].fd) : NULL;
        if (!e || !e->k) { fds[i].revents = POLLNVAL; n++; continue; }
        if (fds[i].events & (POLLIN | POLLRDNORM)) {
            int ok = e->k->type == KO_LISTENER ? e->k->nbacklog > 0 : e->k->type == KO_SOCK ? readable_now(e->k) : e->k->type != KO_RAWSOCK;
            if (ok) fds[i].revents |= (short)(fds[i].events & (POLLIN | POLLRDNORM));
        }
        if (fds[i].events & (POLLOUT | POLLWRNORM)) {
            int ok = e->k->type == KO_SOCK ? writable_now(e->k) : 0;
            if (ok) fds[i].revents |= (short)(fds[i].events & (POLLOUT | POLLWRNORM));
        }
        if (fds[i].revents) n++;
    }
    probe_hit("poll_called");
    if (!n && timeout_ms > 0) task_sleep_us((int64_t)timeout_ms * 1000);
    tr_printf("poll %d descriptors -> %d", (int)nfds, n);
    return n;
}

/* ------------------------------------------------------------------ cookie streams */
typedef struct { unsigned char *data; size_t len, pos; int seekable, failed, id; } cstream_t;
static int open_streams;

static ssize_t ck_read(void *c, char *buf, size_t n)
{
    cstream_t *s = c;
    int f = fault_next(FC_READ), out = f < 0 ? FO_FULL : F_OUT(f);
    size_t avail = s->len - s->pos, take = n < avail ? n : avail;
    sim_step();
    simfd_stat_cookie_reads++;
    if (s->failed) { fault_fired(FC_READ, FO_EIO); tr_printf("stream read -> EIO (unreadable)"); simfd_hard_error = 1; errno = EIO; return -1; }
    if (out == FO_EIO) { fault_fired(FC_READ, FO_EIO); tr_printf("stream read -> EIO"); s->failed = 1; simfd_hard_error = 1; errno = EIO; return -1; }
    if (out == FO_ETRANSIENT) { fault_fired(FC_READ, FO_ETRANSIENT); tr_printf("stream read -> EINTR (once)"); simfd_stream_transient++; simfd_last_cookie_pos = s->pos;
        if (simfd_ntransient < SIMFD_TRANS_MAX) { simfd_transient_log[simfd_ntransient].stream = s->id; simfd_transient_log[simfd_ntransient].pos = s->pos; simfd_ntransient++; }
        errno = EINTR; return -1; }      /* nothing delivered, nothing broken: the next read carries on */
    if (out == FO_EAGAIN) { fault_fired(FC_READ, FO_EAGAIN); tr_printf("stream read -> EAGAIN (once)"); simfd_stream_transient++; simfd_last_cookie_pos = s->pos; errno = EAGAIN; return -1; }      /* a non-blocking source with nothing to give just now: fgets() hands out what it has of the line and carries on next time */
    if (out == FO_SHORT && take > 1) {
        size_t lim = (size_t)F_PARAM(f);
        if (lim < 1) lim = 1;
        if (lim < take) { take = lim; fault_fired(FC_READ, FO_SHORT); simfd_stat_cookie_short++; }
    }
    if (take) memcpy(buf, s->data + s->pos, take);
    s->pos += take;
    tr_printf("stream read n=%zu -> %zu", n, take);
    return (ssize_t)take;
}
static int ck_seek(void *c, off64_t *off, int whence)
{
    cstream_t *s = c;
    off64_t np;
    if (!s->seekable) { errno = ESPIPE; return -1; }
    np = whence == SEEK_SET ? *off : whence == SEEK_CUR ? (off64_t)s->pos + *off : (off64_t)s->len + *off;
    if (np < 0 || (size_t)np > s->len) { errno = EINVAL; return -1; }
    s->pos = (size_t)np;
    *off = np;
    return 0;
}
static int ck_close(void *c)
{
    cstream_t *s = c;
    free(s->data);
    free(s);
    open_streams--;
    return 0;
}
FILE *simfd_cookie_stream(const void *data, size_t len, int seekable, size_t startpos)
{
    cstream_t *s = calloc(1, sizeof(*s));
    cookie_io_functions_t io = { ck_read, NULL, ck_seek, ck_close };
    FILE *fp;
    s->data = malloc(len + 1);
    if (len) memcpy(s->data, data, len);
    s->len = len; s->pos = startpos > len ? len : startpos; s->seekable = seekable; s->id = ++cookie_ids;
    fp = fopencookie(s, "r", io);
    if (fp) open_streams++;
    return fp;
}
FILE *simfd_cookie_stream_unreadable(void)
{
    /* opens, but every read fails: a directory opened with "r", a file on a failed device */
    cstream_t *s = calloc(1, sizeof(*s));
    cookie_io_functions_t io = { ck_read, NULL, ck_seek, ck_close };
    FILE *fp;
    s->data = malloc(1); s->failed = 1; s->id = ++cookie_ids;
    fp = fopencookie(s, "r", io);
    if (fp) open_streams++;
    return fp;
}
/* send()/recv() on a stream socket are write()/read() with flags (MSG_NOSIGNAL and the like change nothing the simulation models) */
ssize_t sim_send(int fd, const void *buf, size_t n, int flags) { if (!is_sim(fd)) return send(fd, buf, n, flags); return sim_write(fd, buf, n); }
ssize_t sim_recv(int fd, void *buf, size_t n, int flags) { if (!is_sim(fd)) return recv(fd, buf, n, flags); return sim_read(fd, buf, n); }

/* fstat() on a simulated descriptor: a regular file says so and knows its size, a byte source is a pipe, a socket a socket.
   (The pinned library never asks; a maintainer's size-hint optimisation would, and must then meet what a kernel answers.) */
#include <sys/stat.h>
int sim_fstat(int fd, struct stat *st)
{
    fdent_t *e;
    if (!is_sim(fd)) { if (simfs_is_fd(fd)) { memset(st, 0, sizeof(*st)); st->st_mode = S_IFREG | 0600; st->st_size = (off_t)simfs_fd_size(fd); st->st_blksize = 4096; return 0; } return fstat(fd, st); }
    sim_step();
    e = ent(fd);
    if (!e || !e->k) { errno = EBADF; return -1; }
    memset(st, 0, sizeof(*st));
    st->st_blksize = 4096; st->st_nlink = 1; st->st_ino = (ino_t)(1000 + fd);
    if (e->k->type == KO_FILE) { st->st_mode = S_IFREG | 0644; st->st_size = (off_t)e->k->len; }
    else if (e->k->type == KO_SRC) st->st_mode = S_IFIFO | 0600;
    else st->st_mode = S_IFSOCK | 0777;
    tr_printf("fstat fd%d mode=%o size=%lld", fd, (unsigned)st->st_mode, (long long)st->st_size);
    return 0;
}

/* a stdio stream over a simulated descriptor, as fdopen() or popen() give one: stdio reads ahead through the descriptor (so the
   descriptor's position runs in front of the stream's), fileno() names the descriptor, seeking works iff the descriptor is a regular
   file.  An interrupted read is restarted before stdio sees it (SA_RESTART); short reads and hard errors reach stdio as they are. */
typedef struct { int fd, failed; } fdstream_t;
static ssize_t fds_read(void *c, char *buf, size_t n)
{
    fdstream_t *s = c;
    ssize_t r;
    if (s->failed) { errno = EIO; return -1; }          /* (a device that failed stays failed, as with the other simulated streams) */
    do r = sim_read(s->fd, buf, n); while (r < 0 && errno == EINTR);
    if (r < 0) s->failed = 1;
    return r;
}
static int fds_seek(void *c, off64_t *off, int whence)
{
    fdstream_t *s = c;
    off_t r = sim_lseek(s->fd, (off_t)*off, whence);
    if (r < 0) return -1;
    *off = r;
    return 0;
}
static int fds_close(void *c) { free(c); open_streams--; return 0; }
FILE *simfd_fd_stream(int fd)
{
    fdstream_t *s = calloc(1, sizeof(*s));
    cookie_io_functions_t io = { fds_read, NULL, fds_seek, fds_close };
    FILE *fp;
    s->fd = fd;
    fp = fopencookie(s, "r", io);
    if (fp) { open_streams++; fp->_fileno = fd; }
    return fp;
}
int simfd_open_streams(void) { return open_streams; }
