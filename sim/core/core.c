/* simcore: prng, plan text format, trace hash, verdicts, probes, fault scripts, runner main */
#define _GNU_SOURCE
#include "sim.h"
#include <stdlib.h>
#include <string.h>
#include <signal.h>
#include <unistd.h>
#include <errno.h>
#include <sys/time.h>
#include <ctype.h>
#include <fcntl.h>
#include <sys/mman.h>
#ifdef SIM_COV
extern void __gcov_dump(void);
#define SIM_COV_DUMP() __gcov_dump()
#else
#define SIM_COV_DUMP() ((void)0)
#endif

run_t R;

/* ------------------------------------------------------------------ prng */
static uint64_t splitmix(uint64_t *x)
{
    uint64_t z = (*x += 0x9e3779b97f4a7c15ULL);
    z = (z ^ (z >> 30)) * 0xbf58476d1ce4e5b9ULL;
    z = (z ^ (z >> 27)) * 0x94d049bb133111ebULL;
    return z ^ (z >> 31);
}
void rng_seed(rng_t *r, uint64_t seed, uint64_t stream)
{
    uint64_t x = seed * 0x2545F4914F6CDD1DULL + stream * 0x9E3779B97F4A7C15ULL + 0x1234567;
    for (int i = 0; i < 4; i++) r->s[i] = splitmix(&x);
}
static inline uint64_t rotl(uint64_t x, int k) { return (x << k) | (x >> (64 - k)); }
uint64_t rng_u64(rng_t *r)
{
    uint64_t *s = r->s, result = rotl(s[1] * 5, 7) * 9, t = s[1] << 17;
    s[2] ^= s[0]; s[3] ^= s[1]; s[1] ^= s[2]; s[0] ^= s[3]; s[2] ^= t; s[3] = rotl(s[3], 45);
    return result;
}
uint32_t rng_below(rng_t *r, uint32_t n) { return n ? (uint32_t)((rng_u64(r) >> 11) % n) : 0; }
int rng_range(rng_t *r, int lo, int hi) { return hi <= lo ? lo : lo + (int)rng_below(r, (uint32_t)(hi - lo + 1)); }
int rng_chance(rng_t *r, int num, int den) { return (int)rng_below(r, (uint32_t)den) < num; }
int rng_pick(rng_t *r, const int *vals, int n) { return vals[rng_below(r, (uint32_t)n)]; }

int sim_tier_scale(void)
{
    static int s;
    if (!s) { const char *t = getenv("SIM_TIER"); s = (t && !strcmp(t, "thorough")) ? 2 : 1; }
    return s;
}

/* ------------------------------------------------------------------ plan */
const char *fo_names[FO_NMAX] = { "FULL", "SHORT", "EINTR", "EAGAIN", "EIO", "EMFILE", "ENOENT",
                                  "ECONNREFUSED", "ECONNABORTED", "EADDRINUSE", "EPIPE", "EACCES", "ETRANSIENT" };
const char *fc_names[FC_NMAX] = { "?", "read", "write", "accept", "close", "open", "connect", "socket", "bind", "listen", "?", "?" };

void plan_init(plan_t *p, const char *prop, uint64_t seed)
{
    memset(p, 0, sizeof(*p));
    snprintf(p->prop, sizeof(p->prop), "%s", prop);
    p->seed = seed;
}
void plan_free(plan_t *p)
{
    for (int i = 0; i < p->nops; i++) { free(p->ops[i].s); free(p->ops[i].t); p->ops[i].s = p->ops[i].t = NULL; }
    p->nops = 0;
}
void plan_knob(plan_t *p, const char *name, long val)
{
    for (int i = 0; i < p->nknobs; i++) if (!strcmp(p->kname[i], name)) { p->kval[i] = val; return; }
    if (p->nknobs >= PLAN_MAXKNOBS) return;
    snprintf(p->kname[p->nknobs], 24, "%s", name);
    p->kval[p->nknobs++] = val;
}
long plan_get(const plan_t *p, const char *name, long dflt)
{
    for (int i = 0; i < p->nknobs; i++) if (!strcmp(p->kname[i], name)) return p->kval[i];
    return dflt;
}
op_t *plan_op(plan_t *p, int task, const char *kind, int na, ...)
{
    static op_t dummy;
    va_list ap;
    op_t *o;
    if (p->nops >= PLAN_MAXOPS) { memset(&dummy, 0, sizeof(dummy)); return &dummy; }
    o = &p->ops[p->nops++];
    memset(o, 0, sizeof(*o));
    snprintf(o->kind, sizeof(o->kind), "%s", kind);
    o->task = task;
    o->na = na;
    va_start(ap, na);
    for (int i = 0; i < na && i < OP_MAXARGS; i++) o->a[i] = va_arg(ap, long);
    va_end(ap);
    return o;
}
static unsigned char *dupbytes(const void *s, size_t n)
{
    unsigned char *d = malloc(n + 1);
    if (n) memcpy(d, s, n);
    d[n] = 0;
    return d;
}
void op_str(op_t *o, const void *s, size_t n) { free(o->s); o->s = dupbytes(s, n); o->slen = n; o->has_s = 1; }
void op_str2(op_t *o, const void *s, size_t n) { free(o->t); o->t = dupbytes(s, n); o->tlen = n; o->has_t = 1; }
void op_fault(op_t *o, int f) { if (o->nf < OP_MAXFAULT) o->f[o->nf++] = f; }

static void enc(FILE *fp, const unsigned char *s, size_t n)
{
    /* compact forms for long generated payloads: @rep:BYTE:N and @seq:START:N (byte i = 1 + (START+i) % 255) */
    if (n >= 24) {
        size_t i;
        for (i = 1; i < n && s[i] == s[0]; i++);
        if (i == n) { fprintf(fp, "@rep:%d:%zu", s[0], n); return; }
        if (s[0] >= 1) {
            int start = s[0] - 1;
            for (i = 1; i < n && s[i] == (unsigned char)(1 + (start + i) % 255); i++);
            if (i == n) { fprintf(fp, "@seq:%d:%zu", start, n); return; }
        }
    }
    for (size_t i = 0; i < n; i++) {
        unsigned char c = s[i];
        if (c > 32 && c < 127 && c != '%' && c != '@') fputc(c, fp);
        else fprintf(fp, "%%%02X", c);
    }
}
static int hexv(int c) { return isdigit(c) ? c - '0' : (c >= 'A' && c <= 'F') ? c - 'A' + 10 : (c >= 'a' && c <= 'f') ? c - 'a' + 10 : -1; }
static unsigned char *dec(const char *s, size_t *n)
{
    size_t l = strlen(s), k = 0;
    unsigned char *d;
    int a; size_t cnt;
    if (sscanf(s, "@rep:%d:%zu", &a, &cnt) == 2 && cnt <= (1u << 24)) {
        d = malloc(cnt + 1); memset(d, a, cnt); d[cnt] = 0; *n = cnt; return d;
    }
    if (sscanf(s, "@seq:%d:%zu", &a, &cnt) == 2 && cnt <= (1u << 24)) {
        d = malloc(cnt + 1);
        for (size_t i = 0; i < cnt; i++) d[i] = (unsigned char)(1 + ((size_t)a + i) % 255);
        d[cnt] = 0; *n = cnt; return d;
    }
    d = malloc(l + 1);
    for (size_t i = 0; i < l; i++) {
        if (s[i] == '%' && i + 2 < l + 1 && hexv(s[i + 1]) >= 0 && hexv(s[i + 2]) >= 0) {
            d[k++] = (unsigned char)(hexv(s[i + 1]) * 16 + hexv(s[i + 2]));
            i += 2;
        } else d[k++] = (unsigned char)s[i];
    }
    d[k] = 0;
    *n = k;
    return d;
}
void plan_print(const plan_t *p, FILE *fp)
{
    fprintf(fp, "plan v1 prop=%s seed=%llu\n", p->prop, (unsigned long long)p->seed);
    for (int i = 0; i < p->nknobs; i++) fprintf(fp, "knob %s=%ld\n", p->kname[i], p->kval[i]);
    for (int i = 0; i < p->nops; i++) {
        const op_t *o = &p->ops[i];
        fprintf(fp, "op %d %s", o->task, o->kind);
        if (o->na) {
            fprintf(fp, " a=");
            for (int j = 0; j < o->na; j++) fprintf(fp, "%s%ld", j ? "," : "", o->a[j]);
        }
        if (o->has_s) { fprintf(fp, " s="); enc(fp, o->s, o->slen); }
        if (o->has_t) { fprintf(fp, " t="); enc(fp, o->t, o->tlen); }
        if (o->nf) {
            fprintf(fp, " f=");
            for (int j = 0; j < o->nf; j++) fprintf(fp, "%s%d", j ? "," : "", o->f[j]);
        }
        fputc('\n', fp);
    }
    if (p->nsched) {
        fprintf(fp, "sched ");
        for (int i = 0; i < p->nsched; i++) fprintf(fp, "%s%d", i ? "," : "", p->sched[i]);
        fputc('\n', fp);
    }
}
int plan_parse(plan_t *p, FILE *fp)
{
    size_t cap = 1 << 20;
    char *line = malloc(cap);
    int ok = -1;
    memset(p, 0, sizeof(*p));
    while (fgets(line, (int)cap, fp)) {
        size_t l = strlen(line);
        while (l && (line[l - 1] == '\n' || line[l - 1] == '\r')) line[--l] = 0;
        if (!l || line[0] == '#') continue;
        if (!strncmp(line, "plan ", 5)) {
            char *q = strstr(line, "prop=");
            if (q) sscanf(q + 5, "%7s", p->prop);
            q = strstr(line, "seed=");
            if (q) p->seed = strtoull(q + 5, NULL, 10);
            ok = 0;
        } else if (!strncmp(line, "knob ", 5)) {
            char *tok = strtok(line + 5, " ");
            while (tok) {
                char *eq = strchr(tok, '=');
                if (eq) { *eq = 0; plan_knob(p, tok, strtol(eq + 1, NULL, 10)); }
                tok = strtok(NULL, " ");
            }
        } else if (!strncmp(line, "op ", 3)) {
            char *save = NULL, *tok = strtok_r(line + 3, " ", &save);
            op_t *o;
            if (!tok || p->nops >= PLAN_MAXOPS) continue;
            o = &p->ops[p->nops++];
            memset(o, 0, sizeof(*o));
            o->task = atoi(tok);
            tok = strtok_r(NULL, " ", &save);
            if (!tok) { p->nops--; continue; }
            snprintf(o->kind, sizeof(o->kind), "%s", tok);
            while ((tok = strtok_r(NULL, " ", &save))) {
                if (!strncmp(tok, "a=", 2)) {
                    char *q = tok + 2;
                    while (*q && o->na < OP_MAXARGS) { o->a[o->na++] = strtol(q, &q, 10); if (*q == ',') q++; else break; }
                } else if (!strncmp(tok, "s=", 2)) { o->s = dec(tok + 2, &o->slen); o->has_s = 1; }
                else if (!strncmp(tok, "t=", 2)) { o->t = dec(tok + 2, &o->tlen); o->has_t = 1; }
                else if (!strncmp(tok, "f=", 2)) {
                    char *q = tok + 2;
                    while (*q && o->nf < OP_MAXFAULT) { o->f[o->nf++] = (int)strtol(q, &q, 10); if (*q == ',') q++; else break; }
                }
            }
        } else if (!strncmp(line, "sched ", 6)) {
            char *q = line + 6;
            while (*q && p->nsched < PLAN_MAXSCHED) { p->sched[p->nsched++] = (int)strtol(q, &q, 10); if (*q == ',') q++; else break; }
        }
    }
    free(line);
    return ok;
}

/* ------------------------------------------------------------------ trace */
void tr_bytes(const void *p, size_t n)
{
    const unsigned char *b = p;
    uint64_t h = R.trace_hash;
    for (size_t i = 0; i < n; i++) { h ^= b[i]; h *= 0x100000001b3ULL; }
    R.trace_hash = h;
}
void tr_printf(const char *fmt, ...)
{
    char buf[512];
    va_list ap;
    int n;
    va_start(ap, fmt);
    n = vsnprintf(buf, sizeof(buf), fmt, ap);
    va_end(ap);
    if (n < 0) return;
    if ((size_t)n >= sizeof(buf)) n = sizeof(buf) - 1;
    tr_bytes(buf, (size_t)n);
    if (R.verbose) { fputs("  | ", stderr); fputs(buf, stderr); if (!n || buf[n - 1] != '\n') fputc('\n', stderr); }
}
void tr_u64(const char *tag, uint64_t v) { tr_printf("%s=%llu", tag, (unsigned long long)v); }

/* ------------------------------------------------------------------ probes, faults */
#define MAXPROBES 128
static struct { const char *name; uint64_t n; } probes[MAXPROBES];
static int nprobes;
static uint64_t fault_cnt[FC_NMAX][FO_NMAX];
static uint64_t total_runs, total_ops, total_steps, total_simus, total_skips;

void probe_add(const char *name, uint64_t n)
{
    for (int i = 0; i < nprobes; i++) if (probes[i].name == name || !strcmp(probes[i].name, name)) { probes[i].n += n; return; }
    if (nprobes < MAXPROBES) { probes[nprobes].name = name; probes[nprobes++].n = n; }
}
void probe_hit(const char *name) { probe_add(name, 1); }
void fault_fired(int call, int outcome) { if (call < FC_NMAX && outcome < FO_NMAX) fault_cnt[call][outcome]++; }

int fault_next(int call)
{
    op_t *o = R.cur_op;
    if (!o || call >= FC_NMAX) return -1;
    if (o->fpos[call] > 0 && o->fpos[call] <= o->nf) {
        /* an EINTR or EAGAIN with a parameter N > 1 is a burst: the same answer N times in a row (a signal storm, a receiver that
           stays away for a while) */
        int last = o->f[o->fpos[call] - 1];
        if (F_CALL(last) == call && (F_OUT(last) == FO_EINTR || F_OUT(last) == FO_EAGAIN) && F_PARAM(last) > 1 && o->frep[call] + 1 < F_PARAM(last)) { o->frep[call]++; probe_hit("fault_burst"); return last; }
    }
    for (int i = o->fpos[call]; i < o->nf; i++) {
        if (F_CALL(o->f[i]) == call) { o->fpos[call] = i + 1; o->frep[call] = 0; return o->f[i]; }
    }
    o->fpos[call] = o->nf;
    return -1;
}
void fault_unget(int call) { (void)call; }

static void batch_flush(void);
static void print_stats(void)
{
    batch_flush();
    printf("STATS runs=%llu ops=%llu steps=%llu simus=%llu skips=%llu moves=%llu inplace=%llu reuses=%llu allocs=%llu frees=%llu oos_mem=%llu",
           (unsigned long long)total_runs, (unsigned long long)total_ops, (unsigned long long)total_steps,
           (unsigned long long)total_simus, (unsigned long long)total_skips,
           (unsigned long long)sa_stat_moves, (unsigned long long)sa_stat_inplace, (unsigned long long)sa_stat_reuses,
           (unsigned long long)sa_stat_allocs, (unsigned long long)sa_stat_frees, (unsigned long long)R.oos_memory_reports);
    for (int i = 0; i < nprobes; i++) printf(" P:%s=%llu", probes[i].name, (unsigned long long)probes[i].n);
    for (int c = 1; c < FC_NMAX; c++) for (int o = 0; o < FO_NMAX; o++)
        if (fault_cnt[c][o]) printf(" F:%s.%s=%llu", fc_names[c], fo_names[o], (unsigned long long)fault_cnt[c][o]);
    printf("\n");
    fflush(stdout);
}

/* ------------------------------------------------------------------ verdicts */
const char *cur_kind(void) { return R.cur_op ? R.cur_op->kind : "-"; }

/* Batch mode (SIM_BATCH=1, used by the supervisor's search): runs that end OK are not reported one line and one
 * write() each but collected -- seed range, totals and one "hash+flag" entry per run -- and flushed every BATCH_MAX
 * runs and before anything else is printed.  The seed being executed is kept in a small shared file (SIM_PROGRESS)
 * so that the supervisor can name it even if the process is killed outright. */
#define BATCH_MAX 512
static int batch_mode;
static char batch_buf[BATCH_MAX * 17 + 8];
static size_t batch_n;
static uint64_t batch_first, batch_last, batch_ops, batch_steps, batch_simus;
static volatile uint64_t *progress_word;
static void batch_flush(void)
{
    if (!batch_n) return;
    printf("OKS %llu %llu %zu %llu %llu %llu ", (unsigned long long)batch_first, (unsigned long long)batch_last, batch_n,
           (unsigned long long)batch_ops, (unsigned long long)batch_steps, (unsigned long long)batch_simus);
    fwrite(batch_buf, 1, batch_n * 17, stdout);
    putchar('\n');
    fflush(stdout);
    batch_n = 0; batch_ops = batch_steps = batch_simus = 0;
}
static void batch_add(void)
{
    static const char hx[] = "0123456789abcdef";
    char *q = batch_buf + batch_n * 17;
    uint64_t h = R.trace_hash;
    if (!batch_n) batch_first = R.plan->seed;
    batch_last = R.plan->seed;
    for (int i = 15; i >= 0; i--) { q[i] = hx[h & 15]; h >>= 4; }
    q[16] = R.plan->nops >= 3 ? 'T' : 't';
    batch_ops += (uint64_t)R.plan->nops; batch_steps += R.steps; batch_simus += R.clock_us > 0 ? (uint64_t)R.clock_us : 0;
    if (++batch_n == BATCH_MAX) batch_flush();
}
static void end_line(const char *vclass, const char *detail)
{
    if (batch_mode) { if (!strcmp(vclass, "OK") && R.plan) { batch_add(); return; } batch_flush(); }
    printf("END %llu %s %016llx ops=%d at=%d steps=%llu simus=%lld%s%s\n",
           (unsigned long long)(R.plan ? R.plan->seed : 0), vclass, (unsigned long long)R.trace_hash,
           R.plan ? R.plan->nops : 0, R.cur_op_index, (unsigned long long)R.steps, (long long)R.clock_us,
           detail && *detail ? " detail=" : "", detail ? detail : "");
    fflush(stdout);
}
void sim_fail(const char *vclass, const char *fmt, ...)
{
    char cls[160], detail[600];
    va_list ap;
    va_start(ap, fmt);
    vsnprintf(detail, sizeof(detail), fmt, ap);
    va_end(ap);
    for (char *q = detail; *q; q++) if (*q == '\n') *q = ' ';
    snprintf(cls, sizeof(cls), "%s/%s", vclass, cur_kind());
    end_line(cls, detail);
    total_runs++;
    print_stats();
    SIM_COV_DUMP();
    _exit(10);
}
void sim_skip(const char *why)
{
    char cls[160];
    snprintf(cls, sizeof(cls), "SKIP(%s)", why);
    end_line(cls, "");
    print_stats();
    SIM_COV_DUMP();
    _exit(3);
}
/* ------------------------------------------------------------------ the library's own static state
   Workers execute thousands of runs per process.  Whatever the library keeps in static variables (tables, caches, "already
   initialised" flags, a scratch buffer pointer) would otherwise leak from one run into the next, and a verdict would depend on
   which runs a worker had executed before.  The library objects' .data/.bss are therefore collected in sections of their own
   (sim/Makefile, LIBSECT), copied once at process start and copied back before every run.  Within a run static state survives
   as in any program -- that is what multi-cycle and multi-parse plans exercise.  (Not in the coverage build: gcov's counters live
   in the same sections.) */
#ifndef SIM_COV
#define LIBSEC_DECL(n) extern char __start_##n[] __attribute__((weak)), __stop_##n[] __attribute__((weak));
LIBSEC_DECL(libdata) LIBSEC_DECL(libbss) LIBSEC_DECL(libdatarel) LIBSEC_DECL(libdatarel2)
static struct { char *lo, *hi, *copy; } libsec[4];
__attribute__((no_sanitize("address"))) static void rawcopy(void *dst, const void *src, size_t n)
{
    /* (the sections hold ASan's poisoned redzones between the variables: no memcpy, no instrumentation) */
    volatile uint64_t *d = dst; const volatile uint64_t *s = src;
    size_t w = n / 8;
    for (size_t i = 0; i < w; i++) d[i] = s[i];
    for (size_t i = w * 8; i < n; i++) ((volatile char *)dst)[i] = ((const volatile char *)src)[i];
}
static void lib_state_save(void)
{
    libsec[0].lo = __start_libdata; libsec[0].hi = __stop_libdata;
    libsec[1].lo = __start_libbss; libsec[1].hi = __stop_libbss;
    libsec[2].lo = __start_libdatarel; libsec[2].hi = __stop_libdatarel;
    libsec[3].lo = __start_libdatarel2; libsec[3].hi = __stop_libdatarel2;
    for (int i = 0; i < 4; i++) if (libsec[i].lo && libsec[i].hi > libsec[i].lo) {
        libsec[i].copy = malloc((size_t)(libsec[i].hi - libsec[i].lo));
        rawcopy(libsec[i].copy, libsec[i].lo, (size_t)(libsec[i].hi - libsec[i].lo));
    }
}
static void lib_state_restore(void)
{
    for (int i = 0; i < 4; i++) if (libsec[i].copy) rawcopy(libsec[i].lo, libsec[i].copy, (size_t)(libsec[i].hi - libsec[i].lo));
}
size_t sim_lib_state_bytes(void) { size_t n = 0; for (int i = 0; i < 4; i++) if (libsec[i].copy) n += (size_t)(libsec[i].hi - libsec[i].lo); return n; }
#else
static void lib_state_save(void) {}
static void lib_state_restore(void) {}
size_t sim_lib_state_bytes(void) { return 0; }
#endif

static void arm_watchdog(int seconds);
void sim_step(void)
{
    R.steps++;
    /* the CPU watchdog measures processor time spent *without* a simulated call: a loop that keeps calling the environment is
       the step budget's business (LIVELOCK), and a legitimately long operation (a 255-deep include chain re-read through
       %preproc makes a few million calls) must not trip a limit meant for loops that call nothing */
    if ((R.steps & 8191) == 0 && R.in_run) arm_watchdog(10);
    if (++R.op_steps > R.step_budget && R.in_run) sim_fail("LIVELOCK", "more than %llu simulated calls in one operation", (unsigned long long)R.step_budget);
}

/* the allocator is environment, too: a stretch of work that keeps allocating is making progress as far as the CPU watchdog is concerned
   (a 1000-deep nest of built-in calls in a file that includes itself 255 times allocates two 20 kB buffers half a million times and makes
   hardly any other call), and has a budget of its own -- a count, so the verdict does not depend on the machine */
void sim_alloc_step(void)
{
    if (!R.in_run) return;
    if (R.cur_op_index != R.alloc_op_mark) { R.alloc_op_mark = R.cur_op_index; R.op_alloc_steps = 0; }
    if ((++R.alloc_steps & 65535) == 0) arm_watchdog(10);
    if (++R.op_alloc_steps > 60000000ULL) sim_fail("LIVELOCK", "more than 60 million allocator calls in one operation");
}

static const char *signame(int s)
{
    switch (s) { case SIGSEGV: return "SIGSEGV"; case SIGBUS: return "SIGBUS"; case SIGFPE: return "SIGFPE";
                 case SIGABRT: return "SIGABRT"; case SIGILL: return "SIGILL"; default: return "SIG?"; }
}
static void on_signal(int s)
{
    char cls[64];
    if (s == SIGVTALRM) sim_fail("CPU", "cpu watchdog expired");
    snprintf(cls, sizeof(cls), "CRASH(%s)", signame(s));
    sim_fail(cls, "signal %d", s);
}
#ifdef SIM_ASAN
void __sanitizer_set_death_callback(void (*cb)(void));
static void on_asan_death(void)
{
    static int once;
    if (once++) return;
    if (R.in_run) {
        char cls[160];
        snprintf(cls, sizeof(cls), "MEMORY/%s", cur_kind());
        end_line(cls, "sanitizer report (see stderr)");
        total_runs++;
    }
    print_stats();
}
__attribute__((used)) const char *__asan_default_options(void)
{
    return "exitcode=77:detect_leaks=0:detect_stack_use_after_return=0:abort_on_error=0:handle_segv=1:handle_abort=0:"
           "allocator_may_return_null=1:print_legend=0:print_summary=1:symbolize=1:detect_odr_violation=0:"
           "use_sigaltstack=1:handle_sigfpe=1:print_full_thread_history=0:poison_partial=1";
}
#endif

static volatile sig_atomic_t stop_flag;
static void on_stop(int s) { (void)s; stop_flag = 1; }
static void install_handlers(void)
{
    static char altstack[1 << 16];
    stack_t ss = { .ss_sp = altstack, .ss_size = sizeof(altstack), .ss_flags = 0 };
    struct sigaction sa;
    struct itimerval it = { { 0, 0 }, { 0, 0 } };
    memset(&sa, 0, sizeof(sa));
    sa.sa_handler = on_signal;
    sa.sa_flags = SA_ONSTACK | SA_NODEFER;
#ifndef SIM_ASAN
    sigaltstack(&ss, NULL);
    sigaction(SIGSEGV, &sa, NULL);
    sigaction(SIGBUS, &sa, NULL);
    sigaction(SIGFPE, &sa, NULL);
    sigaction(SIGILL, &sa, NULL);
#else
    (void)ss;
    __sanitizer_set_death_callback(on_asan_death);
#endif
    sigaction(SIGABRT, &sa, NULL);
    sigaction(SIGVTALRM, &sa, NULL);
    signal(SIGUSR1, on_stop);
    signal(SIGPIPE, SIG_IGN);
    (void)it;
}
static void arm_watchdog(int seconds)
{
    struct itimerval it = { { 0, 0 }, { seconds, 0 } };
    setitimer(ITIMER_VIRTUAL, &it, NULL);
}

/* ------------------------------------------------------------------ runner */
const engine_t *engine_for(const char *prop)
{
    for (int i = 0; engines[i]; i++) {
        const char *q = strstr(engines[i]->props, prop);
        if (q) return engines[i];
    }
    return NULL;
}

static void run_plan(const engine_t *e, plan_t *p)
{
    for (int i = 0; i < p->nops; i++) { memset(p->ops[i].fpos, 0, sizeof(p->ops[i].fpos)); memset(p->ops[i].frep, 0, sizeof(p->ops[i].frep)); }
    R.plan = p;
    R.cur_op = NULL;
    R.cur_op_index = -1;
    R.trace_hash = 0xcbf29ce484222325ULL;
    R.steps = R.op_steps = 0; R.alloc_steps = R.op_alloc_steps = 0; R.alloc_op_mark = -2;
    R.step_budget = (uint64_t)plan_get(p, "budget", 20000);
    R.clock_us = 0;
    arm_watchdog(10);
    lib_state_restore();
    world_reset(p);
    R.in_run = 1;
    e->exec(p);
    R.in_run = 0;
    R.cur_op = NULL;
    total_runs++;
    total_ops += (uint64_t)p->nops;
    total_steps += R.steps;
    total_simus += (uint64_t)R.clock_us;
    end_line("OK", "");
}

static plan_t g_plan;

static void gen_plan(const engine_t *e, const char *prop, uint64_t seed)
{
    rng_t r;
    plan_free(&g_plan);
    plan_init(&g_plan, prop, seed);
    rng_seed(&r, seed, STREAM_PLAN);
    e->gen(&g_plan, &r);
}

int main(int argc, char **argv)
{
    const engine_t *e;
    setvbuf(stdout, NULL, _IOLBF, 0);
    if (argc < 3) {
        fprintf(stderr, "usage: simrun gen PROP SEED | exec FILE [-v] | run PROP START COUNT STRIDE | seeds PROP s...\n");
        return 2;
    }
    install_handlers();
    lib_state_save();
    sa_init();
    if (!strcmp(argv[1], "gen") && argc >= 4) {
        if (!(e = engine_for(argv[2]))) { fprintf(stderr, "no engine for %s\n", argv[2]); return 2; }
        gen_plan(e, argv[2], strtoull(argv[3], NULL, 10));
        plan_print(&g_plan, stdout);
        return 0;
    }
    if (!strcmp(argv[1], "exec")) {
        FILE *fp = fopen(argv[2], "r");
        if (!fp) { perror(argv[2]); return 2; }
        if (plan_parse(&g_plan, fp)) { fprintf(stderr, "bad plan file\n"); return 2; }
        fclose(fp);
        if (!(e = engine_for(g_plan.prop))) { fprintf(stderr, "no engine for %s\n", g_plan.prop); return 2; }
        R.verbose = (argc > 3 && !strcmp(argv[3], "-v"));
        printf("START %llu\n", (unsigned long long)g_plan.seed);
        run_plan(e, &g_plan);
        print_stats();
        return 0;
    }
    if (!strcmp(argv[1], "run") && argc >= 6) {
        uint64_t start = strtoull(argv[3], NULL, 10), count = strtoull(argv[4], NULL, 10), stride = strtoull(argv[5], NULL, 10);
        if (!(e = engine_for(argv[2]))) { fprintf(stderr, "no engine for %s\n", argv[2]); return 2; }
        batch_mode = getenv("SIM_BATCH") != NULL;
        if (batch_mode && getenv("SIM_PROGRESS")) {
            int pfd = open(getenv("SIM_PROGRESS"), O_RDWR | O_CREAT, 0600);
            if (pfd >= 0 && ftruncate(pfd, 8) == 0) { void *m = mmap(NULL, 8, PROT_READ | PROT_WRITE, MAP_SHARED, pfd, 0); if (m != MAP_FAILED) progress_word = m; }
            if (pfd >= 0) close(pfd);
        }
        if (batch_mode) setvbuf(stdout, NULL, _IOFBF, 1 << 16);
        for (uint64_t i = 0; i < count && !stop_flag; i++) {
            uint64_t seed = start + i * stride;
            if (progress_word) *progress_word = seed;
            if (!batch_mode) printf("START %llu\n", (unsigned long long)seed);
            gen_plan(e, argv[2], seed);
            run_plan(e, &g_plan);
        }
        print_stats();
        return 0;
    }
    if (!strcmp(argv[1], "seeds")) {
        if (!(e = engine_for(argv[2]))) { fprintf(stderr, "no engine for %s\n", argv[2]); return 2; }
        for (int i = 3; i < argc; i++) {
            uint64_t seed = strtoull(argv[i], NULL, 10);
            printf("START %llu\n", (unsigned long long)seed);
            gen_plan(e, argv[2], seed);
            run_plan(e, &g_plan);
        }
        print_stats();
        return 0;
    }
    fprintf(stderr, "bad arguments\n");
    return 2;
}
