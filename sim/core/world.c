/* world reset between runs: allocator, descriptors, file tree, environment, libast globals */
#define _GNU_SOURCE
#include "sim.h"
#include "simfd.h"
#include "simfs.h"
#include <stdlib.h>
#include <string.h>
#include "libast_h.h"

void simacc_conf_forget(void);
void simacc_mem_forget(void);
#include <pcre.h>

void world_reset(const plan_t *p)
{
    sa_cfg_t c;
    c.fill = (int)plan_get(p, "alloc.fill", FILL_A5);
    c.realloc_policy = (int)plan_get(p, "alloc.realloc", REALLOC_MOVE);
    c.reuse = (int)plan_get(p, "alloc.reuse", REUSE_NEVER);
    c.place = (int)plan_get(p, "alloc.place", PLACE_COMPACT);
    c.seed = (uint64_t)plan_get(p, "alloc.seed", (long)p->seed);
    c.zero_null = (int)plan_get(p, "alloc.zero", 0);
    c.realloc0_unique = (int)plan_get(p, "alloc.realloc0", 0);
    sa_reset(&c);
    simfd_reset(plan_get(p, "sock.rxcap", 4096));
    simfs_reset(p->seed);
    simns_reset();
    simenv_set_rand_seed(p->seed | 1);
    clearenv();
    setenv("LC_ALL", "C", 1);
    simacc_conf_forget();
    simacc_mem_forget();
    libast_set_silent(TRUE);
    libast_debug_level = 0;
    libast_program_name = "simrun";
    libast_program_version = "1.0";
    pcre_malloc = sim_malloc;
    pcre_free = sim_free;
}
