#ifndef LIBAST_H_WRAP
#define LIBAST_H_WRAP
#include <config.h>
#include <libast.h>
extern spif_charptr_t libast_program_name, libast_program_version;
/* release a raw pointer handed out by the library (substr_to_ptr, to_array, ...) the way library code would */
void *shim_free(void *p);
#define LIB_FREE(p) ((void) shim_free(p))
#endif
