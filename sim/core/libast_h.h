#ifndef LIBAST_H_WRAP
#define LIBAST_H_WRAP
#include <config.h>
#include <libast.h>
extern spif_charptr_t libast_program_name, libast_program_version;
#endif
