/* Deterministic simulation core for libast -- shared declarations.
 * Harness objects call libc directly; libast objects have their libc
 * references renamed to sim_* by objcopy (see sim/Makefile, sim/redefine.syms). */
#ifndef SIM_H
#define SIM_H
#include <stdint.h>
#include <stddef.h>
#include <stdio.h>
#include <stdarg.h>
#include <sys/types.h>

/* ---------- prng ---------- */
typedef struct { uint64_t s[4]; } rng_t;
enum { STREAM_PLAN = 1, STREAM_ALLOC = 2, STREAM_GARBAGE = 3, STREAM_MISC = 4 };
void     rng_seed(rng_t *r, uint64_t seed, uint64_t stream);
uint64_t rng_u64(rng_t *r);
uint32_t rng_below(rng_t *r, uint32_t n);          /* 0..n-1, n>0 */
int      rng_range(rng_t *r, int lo, int hi);      /* inclusive */
int      rng_chance(rng_t *r, int num, int den);
int      rng_pick(rng_t *r, const int *vals, int n);

int sim_tier_scale(void);          /* 1 quick, 2 thorough (SIM_TIER): generators scale history lengths by it */

/* ---------- plan ---------- */
#define OP_MAXARGS 8
#define OP_MAXFAULT 24
#define FC_NMAX 12
#define PLAN_MAXOPS 600
#define PLAN_MAXKNOBS 32
#define PLAN_MAXSCHED 400
typedef struct {
    char kind[24];
    int task;
    int na;  long a[OP_MAXARGS];
    int has_s, has_t;
    unsigned char *s; size_t slen;      /* first byte-string argument  */
    unsigned char *t; size_t tlen;      /* second byte-string argument */
    int nf; int f[OP_MAXFAULT];         /* fault script attached to this op */
    int fpos[FC_NMAX];                     /* per call-kind cursor, runtime */
    int frep[FC_NMAX];                     /* how often the fault in front of the cursor has been repeated (EINTR/EAGAIN bursts), runtime */
} op_t;
typedef struct {
    char prop[8];
    uint64_t seed;
    int nknobs; char kname[PLAN_MAXKNOBS][24]; long kval[PLAN_MAXKNOBS];
    int nops; op_t ops[PLAN_MAXOPS];
    int nsched; int sched[PLAN_MAXSCHED];
} plan_t;

void  plan_init(plan_t *p, const char *prop, uint64_t seed);
void  plan_free(plan_t *p);
void  plan_knob(plan_t *p, const char *name, long val);
long  plan_get(const plan_t *p, const char *name, long dflt);
op_t *plan_op(plan_t *p, int task, const char *kind, int na, ...);   /* long varargs */
void  op_str(op_t *o, const void *s, size_t n);      /* sets s */
void  op_str2(op_t *o, const void *s, size_t n);     /* sets t */
void  op_fault(op_t *o, int f);
void  plan_print(const plan_t *p, FILE *fp);
int   plan_parse(plan_t *p, FILE *fp);               /* 0 ok */

/* fault encoding: call kind in bits 24.., outcome in bits 16..23, parameter in low 16 */
enum { FC_READ = 1, FC_WRITE = 2, FC_ACCEPT = 3, FC_CLOSE = 4, FC_OPEN = 5, FC_CONNECT = 6, FC_SOCKET = 7, FC_BIND = 8, FC_LISTEN = 9 };
enum { FO_FULL = 0, FO_SHORT = 1, FO_EINTR = 2, FO_EAGAIN = 3, FO_EIO = 4, FO_EMFILE = 5, FO_ENOENT = 6,
       FO_ECONNREFUSED = 7, FO_ECONNABORTED = 8, FO_EADDRINUSE = 9, FO_EPIPE = 10, FO_EACCES = 11,
       FO_ETRANSIENT = 12,     /* a stream read that fails once (EINTR under a handler without SA_RESTART, a server that hiccups) on a stream that works again afterwards */
       FO_NMAX };
#define FAULT(call, outcome, param) (((call) << 24) | ((outcome) << 16) | ((param) & 0xffff))
#define F_CALL(f)  (((f) >> 24) & 0xff)
#define F_OUT(f)   (((f) >> 16) & 0xff)
#define F_PARAM(f) ((f) & 0xffff)
extern const char *fo_names[FO_NMAX];
extern const char *fc_names[FC_NMAX];

/* ---------- run state, trace, verdicts ---------- */
typedef struct {
    const plan_t *plan;
    op_t *cur_op;            /* op being executed (fault scripts are read from it) */
    int   cur_op_index;
    uint64_t trace_hash;
    uint64_t steps;          /* wrapped calls in this run */
    uint64_t op_steps;       /* wrapped calls in the current op */
    uint64_t alloc_steps, op_alloc_steps; int alloc_op_mark;      /* allocator calls in the run / in the current op (sim_alloc_step) */
    uint64_t step_budget;    /* per op */
    int64_t  clock_us;       /* simulated clock */
    int   verbose;           /* exec mode: print the trace */
    int   in_run;
    uint64_t oos_memory_reports;
} run_t;
extern run_t R;

void tr_bytes(const void *p, size_t n);
void tr_printf(const char *fmt, ...) __attribute__((format(printf, 1, 2)));
void tr_u64(const char *tag, uint64_t v);

/* ends the run with a violation verdict: prints the END line and exits the process */
void sim_fail(const char *vclass, const char *fmt, ...) __attribute__((noreturn, format(printf, 2, 3)));
void sim_skip(const char *why) __attribute__((noreturn));
void sim_step(void);          /* count one wrapped call, enforce the budget */
void sim_alloc_step(void);    /* count one allocator call: progress for the CPU watchdog, and a budget of its own */
const char *cur_kind(void);

void probe_hit(const char *name);
void probe_add(const char *name, uint64_t n);
void fault_fired(int call, int outcome);
int  fault_next(int call);    /* next scripted outcome for this call kind in the current op, or -1 */
void fault_unget(int call);   /* the outcome was illegal in this state: not consumed/fired */

/* ---------- simalloc ---------- */
enum { FILL_00 = 0, FILL_FF = 1, FILL_A5 = 2, FILL_RANDOM = 3, FILL_PTR = 4 };
enum { REALLOC_MOVE = 0, REALLOC_INPLACE = 1, REALLOC_RANDOM = 2 };
enum { REUSE_NEVER = 0, REUSE_LIFO = 1, REUSE_QUARANTINE = 2 };
enum { PLACE_COMPACT = 0, PLACE_FAR = 1 };
typedef struct { int fill, realloc_policy, reuse, place; uint64_t seed; int zero_null, realloc0_unique; } sa_cfg_t;      /* zero_null: malloc(0) is NULL; realloc0_unique: realloc(p, 0) releases p and hands out a fresh block of no bytes (both as ISO C allows) */
void   sa_init(void);
void   sa_reset(const sa_cfg_t *cfg);
void   sa_set_fill(int fill);                                       /* change the fresh-memory fill mid-run (garbage differential) */
void  *sim_malloc(size_t n);
void  *sim_calloc(size_t n, size_t m);
void  *sim_realloc(void *p, size_t n);
void   sim_free(void *p);
char  *sim_strdup(const char *s);
int    sa_owns(const void *p);                                        /* inside the arena */
int    sa_lookup(const void *p, void **base, size_t *size, int *live, uint32_t *serial);  /* block containing p */
int   sa_in_arena(const void *p);
int    sa_readable(const void *p, size_t n);                          /* p..p+n inside one live block */
size_t sa_live_count(void);
size_t sa_live_bytes(void);
uint64_t sa_live_digest(void);
uint32_t sa_serial(void);                                            /* serial of the most recent allocation */
void   sa_check(void);                                                /* canaries (plain build) */
size_t sa_report_live_since(uint32_t serial, char *buf, size_t n);    /* describe live blocks newer than serial */
size_t sa_count_live_since(uint32_t serial);
uint64_t sa_offset(const void *p);                                    /* arena offset for logging, 0 for NULL */
extern uint64_t sa_stat_moves, sa_stat_inplace, sa_stat_reuses, sa_stat_allocs, sa_stat_frees;
void   sa_set_tag(int tag);                                           /* tag recorded with subsequent allocations */
int    sa_block_tag(const void *p);
void   sa_force_far(int on);                                         /* place the next small blocks gigabytes apart, whatever the policy */

/* stack painting */
void paint_stack(int byte, size_t nbytes);

/* ---------- engines ---------- */
typedef struct {
    const char *name;
    const char *props;                          /* space separated property ids served */
    void (*gen)(plan_t *p, rng_t *r);           /* fill plan (p->prop, p->seed set) */
    void (*exec)(const plan_t *p);              /* run it; sim_fail() on violation */
} engine_t;
extern const engine_t *engines[];
const engine_t *engine_for(const char *prop);

void world_reset(const plan_t *p);    /* allocator, fds, clock, libast globals */

#ifdef SIM_ASAN
#include <sanitizer/asan_interface.h>
#define SA_POISON(p, n)   ASAN_POISON_MEMORY_REGION((p), (n))
#define SA_UNPOISON(p, n) ASAN_UNPOISON_MEMORY_REGION((p), (n))
#else
#define SA_POISON(p, n)   ((void)0)
#define SA_UNPOISON(p, n) ((void)0)
#endif

extern int sim_vsnprintf_fail_at, sim_vsnprintf_calls, sim_vsnprintf_failed;      /* simalloc.c: the vsnprintf() call of the current operation that fails */
#endif
