/* confsim: the config-file subsystem over a simulated file tree, environment, process spawning and garbage memory.
 *   C09  every line is delivered once, in order, to the innermost context (reference dispatcher, handler trace)
 *   C11  memory safety on arbitrary files and paths, spawn census, temp files, init/use/free lifecycle ledger
 *   C10  value expansion (in confsim10.c, shares the helpers declared in confsim.h) */
#define _GNU_SOURCE
#include "sim.h"
#include "simfd.h"
#include "simfs.h"
#include "confsim.h"
#include <string.h>
#include <stdlib.h>
#include <ctype.h>
#include <strings.h>

int simacc_ctx_depth(void), simacc_ctx_capacity(void), simacc_ctx_count(void), simacc_ctx_table_cap(void);
int simacc_fstate_capacity(void), simacc_fstate_depth(void), simacc_builtin_count(void), simacc_builtin_cap(void);
const void *simacc_vars_head(void);

/* ------------------------------------------------------------------ recording handlers */
#define NH 8
#define MAXREC 4000
typedef struct { int h; int kind; /* 0 text 1 BEGIN 2 END */ unsigned long sin; unsigned long sout; char text[96]; size_t tlen; uint64_t thash; int anytext; /* reference only: the delivered text is left open by the statement */ } rec_t;
static rec_t got[MAXREC], want[MAXREC];
static int ngot, nwant;
static unsigned long tok_counter;
static int check_indices;
static int rec_overflow_ok, rec_extra;          /* see record() */
static uint64_t rec_extra_digest;

static uint64_t fnv(const void *p, size_t n) { const unsigned char *b = p; uint64_t h = 1469598103934665603ULL; for (size_t i = 0; i < n; i++) { h ^= b[i]; h *= 0x100000001b3ULL; } return h; }

/* what a handler hands back: usually a fresh token; in plans with the "handler.mix" knob every fifth call hands back NULL (the documented
   convention for stateless contexts) and every seventh the state it was given -- "the state a handler returns is the state it receives
   next" holds for those too */
static int handler_mix;
static unsigned long handler_result(unsigned long counter, unsigned long sin)
{
    if (handler_mix) { if (counter % 5 == 0) return 0; if (counter % 7 == 0) return sin; }
    return counter;
}
static void *record(int h, spif_charptr_t buff, void *state)
{
    rec_t *r;
    size_t n;
    if (check_indices) {
        if (simacc_ctx_depth() >= simacc_ctx_capacity()) sim_fail("INVARIANT(ctx-index<capacity)", "context stack index %d with capacity %d", simacc_ctx_depth(), simacc_ctx_capacity());
        if (simacc_fstate_depth() >= simacc_fstate_capacity()) sim_fail("INVARIANT(file-index<capacity)", "file stack index %d with capacity %d", simacc_fstate_depth(), simacc_fstate_capacity());
    }
    if (!buff) sim_fail("MISMATCH(line-null)", "handler %d was called without a line (NULL)", h);
    if (ngot >= MAXREC) {
        /* more calls than the record holds.  Where the calls are compared one by one (C09) the run is given up; where only their number
           and a digest are used (C11: a 255-deep self-including file makes thousands) they are folded in and the run goes on, so that the
           way back -- 255 closes, the census, the ledger -- is still judged */
        if (!rec_overflow_ok) sim_skip("too-many-handler-calls");
        n = strlen((const char *)buff);
        rec_extra_digest ^= (uint64_t)h * 31 + (buff[0] == SPIFCONF_BEGIN_CHAR ? 1 : buff[0] == SPIFCONF_END_CHAR ? 2 : 0); rec_extra_digest *= 0x100000001b3ULL;
        rec_extra_digest ^= fnv(buff, n); rec_extra_digest *= 0x100000001b3ULL;
        rec_extra++;
        return (void *)(uintptr_t)(++tok_counter);
    }
    r = &got[ngot++];
    n = strlen((const char *)buff);
    r->h = h; r->sin = (unsigned long)(uintptr_t)state;
    r->kind = buff[0] == SPIFCONF_BEGIN_CHAR ? 1 : buff[0] == SPIFCONF_END_CHAR ? 2 : 0;
    r->tlen = n; r->thash = fnv(buff, n);
    snprintf(r->text, sizeof(r->text), "%.90s", (const char *)buff);
    r->sout = handler_result(++tok_counter, r->sin);
    return (void *)(uintptr_t)r->sout;
}
#define DEFH(i) static void *h##i(spif_charptr_t b, void *s) { return record(i, b, s); }
DEFH(0) DEFH(1) DEFH(2) DEFH(3) DEFH(4) DEFH(5) DEFH(6) DEFH(7)
static ctx_handler_t handlers[NH] = { h0, h1, h2, h3, h4, h5, h6, h7 };

/* ------------------------------------------------------------------ registered contexts (mirror) */
typedef struct { int id; unsigned long state; } lvl_t;
static lvl_t stk[600], stk_save[600];
static int depth;               /* index of the innermost level; level 0 = null context */
#define MAXCTX 300          /* (more than the 8-bit index of the library can count: the 256th registration has to be refused, not wrapped) */
static char ctxname[MAXCTX][24];
static int ctxh[MAXCTX];           /* handler index, -1 = built-in null handler */
static int nctx;                   /* ids 0..nctx-1 (0 = null) */

void conf_reset_mirror(void) { memset(stk, 0, sizeof(stk)); depth = 0; nctx = 1; strcpy(ctxname[0], "null"); ctxh[0] = -1; ngot = nwant = 0; tok_counter = 0; rec_extra = 0; rec_extra_digest = 0; }
void conf_register(int count, int override_null)
{
    char nm[24];
    for (int i = 0; i < count && nctx < MAXCTX - 1; i++) {
        snprintf(nm, sizeof(nm), "c%d", nctx);
        spifconf_register_context((spif_charptr_t)nm, handlers[nctx % NH]);
        snprintf(ctxname[nctx], 24, "%s", nm); ctxh[nctx] = nctx % NH; nctx++;
    }
    if (override_null) { spifconf_register_context((spif_charptr_t)"NULL", handlers[0]); ctxh[0] = 0; probe_hit("null_context_overridden"); }
    if (nctx > 20) probe_hit("contexts_crossed_20");
    if (nctx > 160) probe_hit("contexts_crossed_160");
}

/* ------------------------------------------------------------------ reference dispatcher (DESIGN B.6) */
static int ref_max_depth, ref_include_depth, ref_max_include;
static int ref_overlong;
static int ref_open_idx;        /* number of fopen attempts so far (fault script cursor) */
static const op_t *ref_faults;
static int ref_deliver_unterminated, ref_expanded, ref_entry_fs;
static int ref_include_capped;
static int ref_unknown, ref_surplus_end, ref_eof_nonl, ref_include_fail, ref_overlong, ref_unreadable, ref_empty_file;

#define STATE_ANY (~0UL)
static int ref_anytext;          /* the next reference call delivers a line whose text the statement leaves open (it is still delivered, once) */
static unsigned long ref_call(int id, int kind, const char *text, unsigned long sin)
{
    rec_t *r;
    if (ctxh[id] < 0) return STATE_ANY;          /* built-in null context: what its handler hands back is not stated -- whatever it is, it is what comes next */
    if (nwant >= MAXREC) sim_skip("too-many-handler-calls");
    r = &want[nwant++];
    r->h = ctxh[id]; r->kind = kind; r->sin = sin;
    r->tlen = strlen(text); r->thash = fnv(text, r->tlen);
    snprintf(r->text, sizeof(r->text), "%.90s", text);
    r->anytext = ref_anytext; ref_anytext = 0;
    r->sout = handler_result(++tok_counter, sin);
    return r->sout;
}
/* what the fault script did to this open: asked of the simulated fopen's own record, by file and by how often the reference has opened
   that file so far -- not by counting opens, whose number and order are the library's business (it may stat() first, or probe and reopen) */
#define REFOPEN_MAX 64
static struct { char name[160]; int n; } refopen[REFOPEN_MAX];
static int nrefopen;
/* A read of a config stream that fails once (EINTR) and would work again.  What the stream had delivered is used up by then, so the
   lines that end before that point have been read whole; the line the failure fell into cannot be had any more (fgets() gives up a
   line it has begun).  Reading (ref_use_cut = 1): the file ends there -- a failed read is the end of the file, as the library has
   always taken it.  The other reading a correct parser may take is that of a reader that loses nothing (its own buffering, a
   retry that lands on a line boundary): the whole file (ref_use_cut = 0).  Delivering the rest of a broken line as a line of its
   own is neither. */
static int ref_use_cut = 1;
static size_t ref_cut = (size_t)-1;
static int ref_cut_used;
static int ref_open_ok(const char *name)
{
    int j = 0, how;
    for (int i = 0; i < nrefopen; i++) if (!strcmp(refopen[i].name, name)) { j = refopen[i].n++; goto have; }
    if (nrefopen < REFOPEN_MAX) { snprintf(refopen[nrefopen].name, sizeof(refopen[nrefopen].name), "%s", name); refopen[nrefopen].n = 1; nrefopen++; }
have:
    how = simfs_openlog_get(name, j);
    ref_open_idx++;
    ref_cut = (size_t)-1;
    if (how >= 0 && ref_use_cut && simfs_openlog_last_sid)
        for (int q = 0; q < simfd_ntransient; q++) if (simfd_transient_log[q].stream == simfs_openlog_last_sid) { ref_cut = simfd_transient_log[q].pos; break; }
    return how < 0 ? 1 : how;           /* never opened by the library: nothing scripted can have hit it */
}
static char *ref_word2(const char *s)
{
    /* second whitespace-separated word (no quotes in the C09 grammar) */
    static char w[256];
    size_t n = 0;
    while (*s && isspace((unsigned char)*s)) s++;
    while (*s && !isspace((unsigned char)*s)) s++;
    while (*s && isspace((unsigned char)*s)) s++;
    while (*s && !isspace((unsigned char)*s) && n < 255) w[n++] = *s++;
    w[n] = 0;
    return n ? w : NULL;
}
/* the magic first line names the program: "<NAME-VERSION>", NAME as set last (the program may rename itself between two parses) */
static char ref_magic[40] = "<simrun-";
static int prog_on_heap;
static void ref_file(const char *path, int is_root);
static void ref_line(char *s)
{
    size_t n;
    char *e;
    if (!*s || *s == '\n' || *s == '#' || *s == '<') return;
    while (*s && isspace((unsigned char)*s)) s++;
    n = strlen(s);
    while (n && isspace((unsigned char)s[n - 1])) s[--n] = 0;
    if (!*s || *s == '#') return;
    if (*s == '%') {
        const char *w = s + 1;
        while (*w && isspace((unsigned char)*w)) w++;
        if (!strncasecmp(w, "include ", 8)) {
            char *f = ref_word2(s + 1);
            if (f && ref_entry_fs + 1 + ref_include_depth >= 255) sim_skip("include-chain-beyond-the-8-bit-index");      /* the statement stops at 255 files deep, as it does for contexts: what lies beyond is not compared */
            else if (f) { char fn[256]; snprintf(fn, sizeof(fn), "%s", f); ref_file(fn, 0); } else { ref_include_fail++; }
        }
        return;                       /* other %-lines are expanded for side effects only, never delivered */
    }
    if (*s == 'b' && !strncasecmp(s, "begin ", 6)) {
        char *name = ref_word2(s);
        int id = 0;
        unsigned long st;
        if (name) for (int i = 0; i < nctx; i++) if (!strcasecmp(name, ctxname[i])) { id = i; break; }
        if (name && !id && strcasecmp(name, "null")) ref_unknown++;
        if (depth >= 255) sim_skip("nesting-beyond-the-8-bit-index");       /* the statement stops at 255 */
        depth++;
        stk[depth].id = id; stk[depth].state = 0;
        if (depth > ref_max_depth) ref_max_depth = depth;
        st = ref_call(id, 1, SPIFCONF_BEGIN_STRING, stk[depth - 1].state);
        stk[depth].state = st;
        return;
    }
    if ((*s == 'e' || *s == 'b') && (!strncasecmp(s, "end ", 4) || !strcasecmp(s, "end"))) {
        if (depth > 0) {
            unsigned long st = ref_call(stk[depth].id, 2, SPIFCONF_END_STRING, stk[depth].state);
            depth--;
            stk[depth].state = st;
        } else ref_surplus_end++;
        return;
    }
    e = s;
    if (strpbrk(s, "$~\\%'\"`")) {
        /* "values expanded": what the handler receives is the expansion of the line */
        int dc = 0;
        char *x = conf_ref_expand(s, &dc);
        if (dc) { ref_anytext = 1; probe_hit("line_delivered_with_open_expansion"); }      /* what it expands to is left open; that it is delivered, once, to this handler, is not */
        stk[depth].state = ref_call(stk[depth].id, 0, x, stk[depth].state);
        ref_anytext = 0;
        free(x);
        ref_expanded++;
        return;
    }
    stk[depth].state = ref_call(stk[depth].id, 0, e, stk[depth].state);
}
static void ref_file(const char *path, int is_root)
{
    const unsigned char *data; size_t len, pos = 0;
    static char line[21000];
    int first = 1, how;
    size_t cut;
    if (!(how = ref_open_ok(path))) { ref_include_fail++; return; }
    cut = ref_cut;
    if (!conf_tree_get(path, &data, &len)) { ref_include_fail++; return; }     /* absent, or a directory: nothing can be read from it */
    if (how == 2) { ref_include_fail++; ref_unreadable++; return; }              /* opened but unreadable: no first line, so rejected */
    if (!len) ref_empty_file++;
    if (!is_root) { ref_include_depth++; if (ref_include_depth > ref_max_include) ref_max_include = ref_include_depth; }
    while (pos < len) {
        size_t e = pos, n;
        int nl = 0;
        while (e < len && data[e] != '\n') e++;
        if (e < len) { nl = 1; e++; }
        n = e - pos;
        if (cut != (size_t)-1 && (e > cut || !nl)) {
            /* the read failed inside (or right in front of) this line: the file ends here; a first line lost this way is a missing magic */
            ref_cut_used++;
            if (first) { ref_include_fail++; if (!is_root) ref_include_depth--; return; }
            break;
        }
        if (!first && n - (size_t)nl >= CONFIG_BUFF - 1) {
            /* a line that does not fit the line buffer (20479 characters or more): reported and skipped as a whole -- not delivered, not
               delivered in pieces, and the line after it is delivered as usual */
            pos = e; ref_overlong++;
            if (!nl) break;               /* (unterminated and over-long at once: nothing of it is a line) */
            continue;
        }
        if (n >= sizeof(line)) sim_skip("reference-line-too-long");
        memcpy(line, data + pos, n); line[n] = 0;
        pos = e;
        if (first) {
            first = 0;
            if (strncasecmp(line, ref_magic, strlen(ref_magic))) { ref_include_fail++; if (!is_root) ref_include_depth--; return; }   /* no magic: file rejected */
            continue;
        }
        if (!nl) { ref_eof_nonl++; if (!ref_deliver_unterminated) break; }    /* last line without a newline: whether it counts as a line is left open (both readings are accepted, consistently per parse) */
        ref_line(line);
    }
    if (!is_root) ref_include_depth--;
}

/* ------------------------------------------------------------------ simulated tree shared by the conf engines */
#define MAXFILES 300
static struct { char path[128]; const unsigned char *data; size_t len; } tree[MAXFILES];
static int ntree;
const char *conf_tree_prefix = "";
void conf_tree_reset(void) { ntree = 0; conf_tree_prefix = ""; }
void conf_tree_add(const char *path, const unsigned char *data, size_t len)
{
    char full[256];
    if (ntree >= MAXFILES) return;
    snprintf(tree[ntree].path, sizeof(tree[ntree].path), "%s", path);
    tree[ntree].data = data; tree[ntree].len = len; ntree++;
    snprintf(full, sizeof(full), "%s%s%s", path[0] == '/' ? "" : "/cfg/", path[0] == '/' ? "" : conf_tree_prefix, path);
    simfs_add_file(full, data, len, 0644);
}
int conf_tree_get(const char *path, const unsigned char **data, size_t *len)
{
    for (int i = ntree - 1; i >= 0; i--) if (!strcmp(tree[i].path, path)) { *data = tree[i].data; *len = tree[i].len; return 1; }
    return 0;
}

/* /cfg/d, the directory %dirscan() is pointed at: two small files and a sub-directory, plus -- when the plan says so --
 * enough long-named regular files that the listing (each name followed by a blank) is exactly dir.total bytes long */
void conf_fill_dir(const plan_t *p)
{
    long total = plan_get(p, "dir.total", 0), nl = plan_get(p, "dir.namelen", 255);
    int idx = 0;
    simfs_add_dir("/cfg"); simfs_add_dir("/cfg/d");
    simfs_add_file("/cfg/d/one", "1", 1, 0644);
    if (plan_get(p, "dir.ghost", 0)) simfs_add_dangling("/cfg/d/ghost");       /* a name stat() cannot follow, listed right behind a regular file ... */
    simfs_add_file("/cfg/d/two", "2", 1, 0644); simfs_add_dir("/cfg/d/dir");
    if (plan_get(p, "dir.ghost", 0)) { simfs_add_looping_link("/cfg/d/gone"); simfs_add_file("/cfg/d/three", "3", 1, 0644); simfs_add_dangling("/cfg/d/last"); }      /* ... behind a directory, and as the last entry */
    if (total <= 0) return;
    if (nl < 100) nl = 100;
    if (nl > 255) nl = 255;
    total -= 8;                                        /* "one " and "two " */
    while (total >= 2 && idx < 400) {
        char path[300 + 16];
        long l = total - 1 < nl ? total - 1 : nl;      /* this name takes l + 1 bytes of the listing */
        int n;
        if (total - (l + 1) == 1 && l > 5) l--;          /* a remainder of 1 cannot be filled by any name */
        n = snprintf(path, sizeof(path), "/cfg/d/");
        if (l >= 5) { n += snprintf(path + n, sizeof(path) - (size_t)n, "f%03d", idx); memset(path + n, 'n', (size_t)(l - 4)); n += (int)(l - 4); }
        else { memset(path + n, 'z', (size_t)l); n += (int)l; }
        path[n] = 0;
        simfs_add_file(path, "x", 1, 0644);
        total -= l + 1;
        idx++;
    }
    probe_hit("big_directory");
}

/* environment of the conf engines: HOME, V1, EMPTY, optionally very long values and a TMPDIR of a chosen shape */
void conf_env_setup(const plan_t *p)
{
    long v1 = plan_get(p, "env.v1len", 0), hl = plan_get(p, "env.homelen", 0), td = plan_get(p, "tmpdir", 0);
    clearenv(); setenv("LC_ALL", "C", 1);          /* (whatever an earlier pass or cycle set is gone) */
    simfs_set_call_failures((int)plan_get(p, "fdopen.fail", 0), (int)plan_get(p, "fchmod.fail", 0)); simfs_set_dir_grows((int)plan_get(p, "dir.grows", 0)); simfs_set_fdopen_read_failure((int)plan_get(p, "exec.readfail", 0));
    setenv("HOME", "/home/u", 1); setenv("V1", "val-one", 1); setenv("EMPTY", "", 1); setenv("LONG_name_9", "L", 1);
    if (v1 > 0 && v1 <= 70000) { char *b = malloc((size_t)v1 + 1); memset(b, 'w', (size_t)v1); b[v1] = 0; setenv("V1", b, 1); free(b); probe_hit("long_env_value"); }
    if (hl > 0 && hl <= 70000) { char *b = malloc((size_t)hl + 3); b[0] = '/'; memset(b + 1, 'h', (size_t)hl); b[hl + 1] = 0; setenv("HOME", b, 1); free(b); probe_hit("long_home"); }
    { static const char *mv[] = { NULL, "`echo pwned`", "%exec(echo pwned)", "$V1", "~", "a'b", "x\\", "two  words", "%get(k1)" };
      long em = plan_get(p, "env.meta", 0);
      if (em >= 1 && em <= 8) { setenv("V1", mv[em], 1); probe_hit("environment_value_with_metacharacters"); } }
    if (td == 1) setenv("TMPDIR", "/tmp", 1);
    else if (td == 4) { setenv("TMP", "/tmp", 1); probe_hit("tmp_variable_only"); }                 /* the second choice, with the first one unset */
    else if (td == 5) { setenv("TMP", "/nonexistent", 1); setenv("TMPDIR", "/tmp", 1); }
    else if (td == 2 || td == 3) {
        /* a TMPDIR so long that "<dir>/<template>XXXXXX" just fits, or does not fit, the 256-byte name buffer; td==3: it does not exist */
        long n = plan_get(p, "tmpdir.len", 240);
        char b[400];
        if (n < 2) n = 2;
        if (n > 380) n = 380;
        b[0] = '/'; memset(b + 1, 't', (size_t)n - 1); b[n] = 0;
        if (td == 2) simfs_add_dir(b);
        setenv("TMPDIR", b, 1);
        probe_hit("long_tmpdir");
    }
}

uint64_t conf_trace_digest(int from)
{
    uint64_t h = 1469598103934665603ULL;
    for (int i = from; i < ngot; i++) { h ^= (uint64_t)got[i].h * 31 + (uint64_t)got[i].kind; h *= 0x100000001b3ULL; h ^= got[i].thash; h *= 0x100000001b3ULL; h ^= got[i].sin - (from ? got[from].sout - 1 : 0); h *= 0x100000001b3ULL; }
    return h ^ rec_extra_digest;
}
int conf_trace_count(void) { return ngot + rec_extra; }
void conf_allow_record_overflow(int on) { rec_overflow_ok = on; }
void conf_set_index_checks(int on) { check_indices = on; }

static int compare_quiet;
static int compare_traces(const char *when)
{
    int n = ngot < nwant ? ngot : nwant;
    static const char *kn[] = { "text", "BEGIN", "END" };
    for (int i = 0; i < n; i++) {
        rec_t *g = &got[i], *w = &want[i];
        if (g->h != w->h || g->kind != w->kind)
            { if (compare_quiet) return 0; sim_fail("MISMATCH(dispatch)", "%s: handler call #%d went to handler %d as %s \"%.40s\", the reference delivers %s \"%.40s\" to handler %d", when, i, g->h, kn[g->kind], g->kind ? "" : g->text, kn[w->kind], w->kind ? "" : w->text, w->h); }
        if (g->kind == 0 && !w->anytext && (g->tlen != w->tlen || g->thash != w->thash))
            { if (compare_quiet) return 0; sim_fail("MISMATCH(line-text)", "%s: handler call #%d received \"%.60s\" (%zu chars), the reference line is \"%.60s\" (%zu chars)", when, i, g->text, g->tlen, w->text, w->tlen); }
        if (w->sin != STATE_ANY && g->sin != w->sin)
            { if (compare_quiet) return 0; sim_fail("MISMATCH(state-threading)", "%s: handler call #%d (%s) received state %lu, the state it must receive is %lu", when, i, kn[g->kind], g->sin, w->sin); }
    }
    if (ngot != nwant) { if (compare_quiet) return 0; sim_fail("MISMATCH(call-count)", "%s: %d handler calls were made, the reference makes %d (first extra/missing: %s \"%.40s\")", when, ngot, nwant,
                                ngot > nwant ? kn[got[n].kind] : kn[want[n].kind], ngot > nwant ? got[n].text : want[n].text); }
    return 1;
}

static void run_reference(const char *name, op_t *o, int entry_ctx, int ng, unsigned long tok_at_entry, int deliver)
{
    unsigned long keep = tok_counter;
    ref_deliver_unterminated = deliver;
    depth = entry_ctx; ref_faults = o; ref_open_idx = 0; nrefopen = 0;
    ref_max_depth = ref_max_include = ref_include_depth = 0;
    ref_unknown = ref_surplus_end = ref_eof_nonl = ref_include_fail = ref_unreadable = ref_empty_file = ref_expanded = ref_include_capped = ref_overlong = 0;
    ref_entry_fs = simacc_fstate_depth();
    nwant = ng;                      /* align the two traces for a second parse in the same run */
    for (int q = 0; q < ng; q++) want[q] = got[q];
    tok_counter = tok_at_entry;
    ref_file(name, 1);
    tok_counter = keep;
}

/* ------------------------------------------------------------------ C09 executor */
static void exec_c09(const plan_t *p)
{
    int entry_ctx, entry_fs;
    conf_reset_mirror(); conf_tree_reset();
    simfs_add_dir("/cfg"); simfs_add_dir("/cfg/sub"); simfs_set_cwd("/cfg");
    if (plan_get(p, "altdir", 0)) { simfs_add_dir("/cfg/alt"); simfs_add_dir("/cfg/alt/sub"); conf_tree_prefix = "alt/"; }     /* every file lives in /cfg/alt and is found through the search path */
    conf_env_setup(p);
    spifconf_init_subsystem();
    check_indices = 1;
    strcpy(ref_magic, "<simrun-"); prog_on_heap = 0;
    handler_mix = (int)plan_get(p, "handler.mix", 0);
    for (int i = 0; i < p->nops; i++) {
        op_t *o = (op_t *)&p->ops[i];
        const char *k = o->kind;
        R.cur_op = o; R.cur_op_index = i; R.op_steps = 0;
        if (!strcmp(k, "progname") && o->has_s && o->slen && o->slen < 24) {
            /* the program (re)names itself: from now on a file must carry the new name in its first line */
            char nm[32];
            snprintf(nm, sizeof(nm), "%.*s", (int)o->slen, (const char *)o->s);
            for (char *q = nm; *q; q++) if (!isalnum((unsigned char)*q)) *q = 'x';
            if (!prog_on_heap) libast_program_name = (spif_charptr_t)NULL;      /* (the harness's own initial name is not the library's to free) */
            libast_set_program_name(nm);
            prog_on_heap = 1;
            snprintf(ref_magic, sizeof(ref_magic), "<%s-", nm);
            probe_hit("program_renamed");
        } else if (!strcmp(k, "env") && o->has_s) {
            /* the environment changes between two parses: a value delivered later is expanded with what holds then */
            char nm[64], vl[256];
            snprintf(nm, sizeof(nm), "%.*s", (int)(o->slen < 60 ? o->slen : 60), (const char *)o->s);
            snprintf(vl, sizeof(vl), "%.*s", (int)(o->has_t ? (o->tlen < 250 ? o->tlen : 250) : 0), o->has_t ? (const char *)o->t : "");
            if (!nm[0] || strchr(nm, '=')) continue;
            if (o->a[0]) unsetenv(nm); else setenv(nm, vl, 1);
            probe_hit("environment_changed_between_parses");
        } else
        if (!strcmp(k, "file") && o->has_s && o->has_t) {
            char nm[128];
            snprintf(nm, sizeof(nm), "%.*s", (int)(o->slen < 120 ? o->slen : 120), (const char *)o->s);
            conf_tree_add(nm, o->t, o->tlen);
        } else if (!strcmp(k, "ctx")) conf_register((int)o->a[0], (int)o->a[1]);
        else if (!strcmp(k, "parse") && o->has_s) {
            char *name = sim_malloc(o->slen + 1), *ret;
            int balanced, parse_ok = 0, unjudged = 0;
            memcpy(name, o->s, o->slen); name[o->slen] = 0;
            entry_ctx = simacc_ctx_depth(); entry_fs = simacc_fstate_depth();
            /* reference first (it only reads the tree), then the real parser */
            {
                unsigned long tok_at_entry = tok_counter;
                int ng = ngot;
                memcpy(stk_save, stk, sizeof(stk));
                simfs_openlog_reset(); simfd_ntransient = 0;
                if (plan_get(p, "altdir", 0)) { ret = (char *)spifconf_parse((spif_charptr_t)name, (spif_charptr_t)NULL, (spif_charptr_t)"/x:/cfg/alt"); probe_hit("root_found_through_search_path"); }
                else if (o->a[0]) ret = (char *)spifconf_parse((spif_charptr_t)name, (spif_charptr_t)(o->a[0] == 2 ? "/cfg" : NULL), (spif_charptr_t)"/nonexistent:/cfg:/tmp");
                else ret = (char *)spifconf_parse((spif_charptr_t)name, NULL, NULL);
                tr_printf("parse %s -> %s calls=%d", name, ret ? ret : "NULL", ngot);
                parse_ok = ret != NULL;
                if (ret) sim_free(ret);
                /* the reference follows (it reads the tree and the record of what the simulated fopen did to which file) */
                {
                    /* Where a read failed once during this parse the statement is silent: it quantifies over config texts, not over
                       reads that fail.  Three readers written independently of each other do three things -- fgets() loses the line it
                       had begun and the library takes the failure for the end of the file; getline() hands the beginning of the broken
                       line out as a line and its rest as the next one; a getc() loop that retries loses nothing.  So the handler trace is
                       not judged then, unless it is that of one of two readings (the file ends at the failed read / nothing was lost), in
                       which case the reading's context depth serves the balance rule below; files closed and file stack restored are
                       demanded regardless. */
                    int fitted = 0;
                    for (int reading = simfd_ntransient ? 0 : 1; reading < 2 && !fitted; reading++) {
                        int ok;
                        ref_use_cut = reading == 0; ref_cut_used = 0;
                        memcpy(stk, stk_save, sizeof(stk));
                        { int ngot_after = ngot; ngot = ng; run_reference(name, o, entry_ctx, ng, tok_at_entry, 0); ngot = ngot_after; }
                        if (ref_eof_nonl) {
                            /* a last line without a newline: accepted whether it is delivered or dropped, as long as the parse treats every such line the
                               same way.  Which reading the library took shows in the calls it made -- and, where such a line reaches no recorded handler
                               (an end, a begin of an unknown block), in the depth of the context stack it left */
                            compare_quiet = 1;
                            if (!compare_traces("parse") || depth != simacc_ctx_depth()) {
                                memcpy(stk, stk_save, sizeof(stk));
                                run_reference(name, o, entry_ctx, ng, tok_at_entry, 1);
                                probe_hit("unterminated_last_line_delivered");
                            }
                            compare_quiet = 0;
                        }
                        compare_quiet = simfd_ntransient != 0;
                        ok = compare_traces("parse");
                        compare_quiet = 0;
                        if (simfd_ntransient && ok && depth == entry_ctx && simacc_ctx_depth() != entry_ctx) ok = 0;      /* (same calls, another depth: not this reading) */
                        if (reading == 0 && ref_cut_used) probe_hit("config_read_failed_once_inside_the_file");
                        if (ok) { fitted = 1; if (reading == 0 && ref_cut_used) probe_hit("file_taken_to_end_at_the_failed_read"); }
                    }
                    if (!fitted) { depth = -1; probe_hit("trace_after_a_failed_read_not_judged"); }      /* (only possible where a read failed) */
                    if (simfd_ntransient) unjudged = 1;      /* whichever way the parser took the failure, the mirror cannot know what it left in the parser's tables for the next parse */
                }
                ref_use_cut = 1;
            }
            balanced = (depth == entry_ctx);
            if (simfd_open_streams()) sim_fail("INVARIANT(files-closed)", "%d config streams are still open after spifconf_parse returned", simfd_open_streams());
            if (simacc_fstate_depth() != entry_fs) sim_fail("INVARIANT(file-stack)", "file stack index is %d after parsing, %d before", simacc_fstate_depth(), entry_fs);
            if (balanced && simacc_ctx_depth() != entry_ctx) sim_fail("INVARIANT(context-stack)", "blocks are balanced but the context stack index is %d after parsing, %d before", simacc_ctx_depth(), entry_ctx);
            if (!balanced) probe_hit("context_stack_after_unbalanced_input");        /* (promised for balanced input only) */
            if (unjudged) { sim_free(name); break; }      /* the mirror no longer knows which states the handlers hold: the run ends here, with what could be demanded demanded */
            if (strcmp(simfs_cwd(), "/cfg")) probe_hit("cwd_left_changed");          /* (the statement does not mention the working directory) */
            (void)parse_ok;
            simfs_set_cwd("/cfg");
            { static const int marks[] = { 20, 40, 80, 160 }; static const char *pn[] = { "depth_crossed_20", "depth_crossed_40", "depth_crossed_80", "depth_crossed_160" };
              static const char *pi[] = { "include_depth_crossed_10", "include_depth_crossed_20", "include_depth_crossed_40", "include_depth_crossed_80", "include_depth_crossed_160" };
              static const int imarks[] = { 10, 20, 40, 80, 160 };
              for (int q = 0; q < 4; q++) if (ref_max_depth >= marks[q]) probe_hit(pn[q]);
              for (int q = 0; q < 5; q++) if (ref_max_include >= imarks[q]) probe_hit(pi[q]); }
            if (ref_unknown) probe_hit("unknown_context");
            if (ref_surplus_end) probe_hit("surplus_end");
            if (ref_eof_nonl) probe_hit("eof_without_newline");
            if (ref_include_fail) probe_hit("include_open_failed");
            if (ref_expanded) probe_hit("delivered_value_was_expanded");
            if (ref_include_capped) probe_hit("include_refused_at_depth_255");
            if (ref_unreadable) probe_hit("file_opened_but_unreadable");
            if (ref_overlong) probe_hit("overlong_line_skipped");
            if (ref_empty_file) probe_hit("empty_file");
            if (!balanced) probe_hit("unbalanced_input");
            sim_free(name);
        }
    }
    R.cur_op = NULL;
    check_indices = 0;
}

/* ------------------------------------------------------------------ C09 generator */
static size_t gbuf_len;
static char gbuf[200000];
static void gb_reset(void) { gbuf_len = 0; }
static void gb_add(const char *fmt, ...)
{
    va_list ap; int n;
    va_start(ap, fmt);
    n = vsnprintf(gbuf + gbuf_len, sizeof(gbuf) - gbuf_len, fmt, ap);
    va_end(ap);
    if (n > 0 && gbuf_len + (size_t)n < sizeof(gbuf)) gbuf_len += (size_t)n;
}
static int gen_expansions, gen_longlines;
/* more white space than the one blank between a keyword and its argument: the argument is still the second word */
static const char *gen_gap(rng_t *r) { static const char *g[] = { " ", "  ", "\t", " \t ", "     " }; return rng_chance(r, 1, 6) ? g[rng_below(r, 5)] : ""; }
static void gen_text_line(rng_t *r)
{
    static const char al[] = "abcdefgxyzEB0123 _=.,:/-";
    int n = rng_range(r, 1, 30), lead = rng_chance(r, 1, 4) ? rng_range(r, 1, 3) : 0, trail = rng_chance(r, 1, 4) ? rng_range(r, 1, 3) : 0;
    char t[64];
    for (int i = 0; i < n; i++) t[i] = al[rng_below(r, sizeof(al) - 1)];
    t[n] = 0;
    if (t[0] == ' ') t[0] = 'q';
    if (rng_chance(r, 1, 12)) { static const char *tricky[] = { "begin", "ending now", "bend", "e", "b", "End", "Begin c1", "endx" }; snprintf(t, sizeof(t), "%s", tricky[rng_below(r, 8)]); }
    else if (gen_expansions && rng_chance(r, 1, 3)) {
        /* a value that has to be expanded before it is delivered */
        static const char *ex[] = { "v=$V1", "p ${V1}/x", "h $(HOME) t", "~/rc", "a\\tb", "q '$V1 ~' r", "d \"~ $V1\" e", "u $NOSUCH w", "m ${EMPTY}n", "k \\$V1",
                                    "colour %get(fg", "x %put(k", "y %nosuch(z) w", "w [%get(nokey)]", "lone $ sign", "open ${V1" };
        snprintf(t, sizeof(t), "%s", ex[rng_below(r, 16)]);
    }
    else if (gen_longlines && rng_chance(r, 1, 6)) {
        /* a long ordinary line: 254..257, 4095..4097 or 20478 characters */
        static const int ll[] = { 254, 255, 256, 257, 4095, 4096, 4097, 20478, 20479, 20480, 20490, 41000 };
        int L = ll[rng_below(r, 12)];
        if (L <= 20478 && L + lead > 20478) L = 20478 - lead;          /* (with the newline: exactly what one read of the line buffer takes; beyond that the line counts as too long and is skipped) */
        gb_add("%*s", lead, "");
        for (int i = 0; i < L && gbuf_len + 2 < sizeof(gbuf); i++) gbuf[gbuf_len++] = (char)('a' + i % 26);
        gb_add("\n");
        return;
    }
    if (rng_chance(r, 1, 6)) {
        /* other kinds of surrounding whitespace: tabs, and a carriage return in front of the newline */
        gb_add("%s%s%s\n", lead ? "\t " : "", t, trail == 1 ? "\r" : trail ? " \t" : "");
    } else gb_add("%*s%s%*s\n", lead, "", t, trail, "");
}
/* a registered context for a begin line: any of them, with a preference for the one registered last (the highest ID the table holds) */
static int pick_ctx(rng_t *r, int nreg) { return nreg <= 0 ? 1 : rng_chance(r, 1, 8) ? nreg : rng_range(r, 1, nreg); }
static void gen_c09(plan_t *p, rng_t *r)
{
    int nreg = rng_chance(r, 1, 8) ? (rng_chance(r, 1, 3) ? rng_range(r, 253, 255) : rng_range(r, 41, 200)) : rng_range(r, 0, 40),      /* up to all 255 IDs an 8-bit index can name */ regime = (int)rng_below(r, 10);
    int nfiles = 1, open_depth = 0, target_depth = 0, nlines, include_chain = 0, nest_chunk;
    op_t *o;
    plan_knob(p, "alloc.fill", rng_range(r, 0, 4));
    plan_knob(p, "alloc.zero", rng_chance(r, 1, 4)); plan_knob(p, "alloc.realloc0", rng_chance(r, 1, 4));      /* the two readings ISO C allows for a request of no bytes */
    plan_knob(p, "alloc.realloc", rng_range(r, 0, 2));
    plan_knob(p, "alloc.reuse", rng_range(r, 0, 2));
    plan_op(p, 0, "ctx", 2, (long)nreg, (long)rng_chance(r, 1, 5));
    if (regime == 0) { static const int d[] = { 9, 10, 11, 19, 20, 21, 39, 40, 41, 79, 80, 81, 159, 160, 161, 200, 255 }; target_depth = d[rng_below(r, 17)]; }
    if (regime == 1) { static const int d[] = { 9, 10, 11, 19, 20, 21, 39, 41, 79, 81, 159, 161, 200, 250, 253, 254, 255, 256 }; include_chain = d[rng_below(r, 18)]; }
    gen_expansions = rng_chance(r, 1, 5); gen_longlines = rng_chance(r, 1, 6);
    if (rng_chance(r, 1, 6)) plan_knob(p, "altdir", 1);
    if (rng_chance(r, 1, 4)) plan_knob(p, "handler.mix", 1);
    nlines = rng_range(r, 3, 60);
    /* include chain: file k includes file k+1 (depth of the file stack) */
    for (int k = include_chain; k >= 1; k--) {
        char nm[32];
        gb_reset();
        gb_add("<simrun-1.0>\n");
        if (rng_chance(r, 1, 3)) gen_text_line(r);
        if (k < include_chain) gb_add("%%include %sinc%d.cfg\n", gen_gap(r), k + 1);
        if (rng_chance(r, 1, 3)) gen_text_line(r);
        snprintf(nm, sizeof(nm), "inc%d.cfg", k);
        o = plan_op(p, 0, "file", 0); op_str(o, nm, strlen(nm)); op_str2(o, gbuf, gbuf_len);
        nfiles++;
    }
    /* a few ordinary include files */
    for (int k = 0; k < 3; k++) {
        char nm[32];
        int nl = rng_range(r, 0, 8);
        gb_reset();
        gb_add(rng_chance(r, 1, 10) ? "no magic here\n" : "<simrun-1.0>\n");
        for (int q = 0; q < nl; q++) {
            int c = (int)rng_below(r, 10);
            if (c < 6 || target_depth > 200) gen_text_line(r); else if (c < 8) gb_add("begin %sc%d\n", gen_gap(r), pick_ctx(r, nreg)); else gb_add("end\n");
        }
        if (rng_chance(r, 1, 6)) { gbuf_len--; }              /* last line without newline */
        snprintf(nm, sizeof(nm), k == 2 ? "sub/s%d.cfg" : "f%d.cfg", k);
        o = plan_op(p, 0, "file", 0); op_str(o, nm, strlen(nm)); op_str2(o, gbuf, gbuf_len);
    }
    o = plan_op(p, 0, "file", 0); op_str(o, "empty.cfg", 9); op_str2(o, "", 0);
    /* root */
    gb_reset();
    gb_add("<simrun-1.0>\n");
    nest_chunk = target_depth;
    for (int q = 0; q < nest_chunk; q++) { gb_add("begin %s%s%d\n", gen_gap(r), rng_chance(r, 1, 20) ? "zz" : "c", pick_ctx(r, nreg)); open_depth++; if (rng_chance(r, 1, 6)) gen_text_line(r); }
    if (include_chain) gb_add("%%include inc1.cfg\n");
    for (int q = 0; q < nlines; q++) {
        int c = (int)rng_below(r, 100);
        if (c < 40) gen_text_line(r);
        else if (c < 58 && open_depth < 250) { gb_add("%sbegin %s%s%d%s\n", rng_chance(r, 1, 5) ? "  " : "", gen_gap(r), rng_chance(r, 1, 10) ? "nosuch" : rng_chance(r, 1, 15) ? "null" : "c", rng_chance(r, 1, 12) ? nreg + rng_range(r, 1, 4) : pick_ctx(r, nreg)      /* (now and then a context that is not registered yet) */, rng_chance(r, 1, 6) ? " extra words" : ""); open_depth++; }
        else if (c < 76) { gb_add(rng_chance(r, 1, 4) ? "end junk here\n" : rng_chance(r, 1, 5) ? "  END\n" : "end\n"); if (open_depth) open_depth--; }
        else if (c < 82) gb_add("%s# a comment %d\n", rng_chance(r, 1, 3) ? (rng_chance(r, 1, 2) ? "  " : "\t") : "", q);
        else if (c < 86) gb_add(rng_chance(r, 1, 2) ? "\n" : "   \n");
        else if (c < 94) gb_add("%%include %s%s\n", gen_gap(r), rng_chance(r, 1, 8) ? "missing.cfg" : rng_chance(r, 1, 10) ? "empty.cfg" : rng_chance(r, 1, 12) ? "sub" : rng_chance(r, 1, 3) ? "sub/s2.cfg" : rng_chance(r, 1, 2) ? "f0.cfg" : "f1.cfg");
        else gb_add("<ignored line\n");
    }
    if (rng_chance(r, 2, 3)) while (open_depth-- > 0) gb_add("end\n");
    if (rng_chance(r, 1, 8)) gb_add("last line without newline");
    o = plan_op(p, 0, "file", 0); op_str(o, "root.cfg", 8); op_str2(o, gbuf, gbuf_len);
    o = plan_op(p, 0, "parse", 1, (long)rng_below(r, 3)); op_str(o, "root.cfg", 8);
    { int nf = rng_range(r, 0, 6);
      for (int q = 0; q < nf; q++) {
          if (rng_chance(r, 1, 12)) op_fault(o, FAULT(FC_READ, FO_ETRANSIENT, 0));      /* this read fails once (EINTR); the stream is not broken */
          else if (rng_chance(r, 1, 2)) { static const int lims[] = { 1, 2, 7, 100, 4095, 4096 }; op_fault(o, FAULT(FC_READ, FO_SHORT, lims[rng_below(r, 6)])); }
          else { static const int outs[] = { FO_FULL, FO_FULL, FO_FULL, FO_ENOENT, FO_EMFILE, FO_EACCES }; int out = outs[rng_below(r, q == 0 ? 3 : 6)];
                 op_fault(o, FAULT(FC_OPEN, out, out == FO_FULL && rng_chance(r, 1, 3) ? 1 : 0)); }
      } }
    if (rng_chance(r, 1, 6) || (gen_expansions && rng_chance(r, 1, 2))) {
        if (gen_expansions && rng_chance(r, 2, 3)) {
            static const char *names[] = { "HOME", "V1", "HOME", "EMPTY", "NOSUCH" };
            static const char *vals[] = { "/other/home", "second value", "", "/", "x y" };
            const char *nm = names[rng_below(r, 5)], *v = vals[rng_below(r, 5)];
            o = plan_op(p, 0, "env", 1, (long)rng_chance(r, 1, 4)); op_str(o, nm, strlen(nm)); op_str2(o, v, strlen(v));
        }
        if (nreg < 240 && rng_chance(r, 1, 3)) { int more = rng_range(r, 1, 6); plan_op(p, 0, "ctx", 2, (long)more, 0L); nreg += more; }      /* contexts are registered between two parses too: what was unknown the first time is known now */
        o = plan_op(p, 0, "parse", 1, 0L); op_str(o, "root.cfg", 8);
    }
    if (rng_chance(r, 1, 8)) {
        /* the program takes another name (once or twice) and reads a file written for that name; files written for the old name are
           now somebody else's */
        static const char *names[] = { "bravo1", "Simrun", "simrum", "x", "simrun2", "averylongprogramname", "simrun" };
        int times = rng_range(r, 1, 2);
        const char *nm = "simrun";
        for (int t = 0; t < times; t++) {
            nm = names[rng_below(r, 7)];
            o = plan_op(p, 0, "progname", 0); op_str(o, nm, strlen(nm));
            if (rng_chance(r, 1, 3)) { o = plan_op(p, 0, "parse", 1, 0L); op_str(o, "root.cfg", 8); }
        }
        gb_reset();
        gb_add("<%s-1.0>\n", nm);
        for (int q = rng_range(r, 1, 6); q > 0; q--) {
            int c = (int)rng_below(r, 10);
            if (c < 5) gen_text_line(r); else if (c < 7) gb_add("begin c%d\n", pick_ctx(r, nreg)); else if (c < 8) gb_add("end\n"); else gb_add("%%include %s\n", rng_chance(r, 1, 2) ? "f0.cfg" : "f1.cfg");
        }
        o = plan_op(p, 0, "file", 0); op_str(o, "root2.cfg", 9); op_str2(o, gbuf, gbuf_len);
        o = plan_op(p, 0, "parse", 1, 0L); op_str(o, "root2.cfg", 9);
    }
    (void)nfiles;
}

const engine_t confsim_c09_engine = { "confsim-dispatch", "C09", gen_c09, exec_c09 };
