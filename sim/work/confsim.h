#ifndef CONFSIM_H
#define CONFSIM_H
#include "libast_h.h"
void conf_reset_mirror(void);
void conf_register(int count, int override_null);
void conf_tree_reset(void);
void conf_tree_add(const char *path, const unsigned char *data, size_t len);
int  conf_tree_get(const char *path, const unsigned char **data, size_t *len);
uint64_t conf_trace_digest(int from);
int conf_trace_count(void);
void conf_set_index_checks(int on);
void conf_fill_dir(const plan_t *p);
void conf_env_setup(const plan_t *p);
char *conf_ref_expand(const char *text, int *dc);      /* confsim10.c: the reference expander */
extern const char *conf_tree_prefix;                    /* directory (below /cfg) that conf_tree_add puts files into */
#endif
void conf_allow_record_overflow(int on);
