/* objsim/containers: C02 (lists + iterators), C03 (maps), C04 (vectors).
 * The same plan is executed on array, linked_list and dlinked_list; every result and a full read-back is
 * compared with an ideal model after every step (so the three classes are differentially compared too),
 * and the link structure is walked through allocator-validated pointers. */
#define _GNU_SOURCE
#include "sim.h"
#include "vobj.h"
/* elements and probes of two sibling classes that compare with each other by key (knob mixedclass): "object comparison" is all
   the containers may go by, never the class of what they are handed */
static int mixed_classes; static unsigned vnew_count;
#define VNEW(k) ((mixed_classes && (vnew_count++ & 1)) ? vobj_new2(k) : vobj_new(k))
#include <libast/array.h>
#include <libast/linked_list.h>
#include <libast/dlinked_list.h>
#include <libast/iterator_if.h>
#include <string.h>
#include <stdlib.h>

#define NCLS 3
static const char *cls_name[NCLS] = { "array", "linked_list", "dlinked_list" };
#define NSLOT 2
#define MAXLEN 2400      /* (256 until seeded round 15 asked for containers beyond 1024 elements; no earlier plan came near the old limit) */
#define HOLE (-1L)

typedef struct { long root[MAXLEN]; long key[MAXLEN]; long val[MAXLEN]; int len; } model_t;   /* val: value id for maps */
static model_t M[NSLOT];
static spif_obj_t C[NSLOT];
static int cur_cls;
static char ocls[96];

static const char *OC(const char *oracle)
{
    snprintf(ocls, sizeof(ocls), "%s:%s", oracle, cls_name[cur_cls]);
    return ocls;
}
#define FAILM(oracle, ...) do { char o_[96]; snprintf(o_, sizeof(o_), "MISMATCH(%s)", OC(oracle)); sim_fail(o_, __VA_ARGS__); } while (0)
#define FAILI(oracle, ...) do { char o_[96]; snprintf(o_, sizeof(o_), "INVARIANT(%s)", OC(oracle)); sim_fail(o_, __VA_ARGS__); } while (0)

static spif_obj_t new_container(int kind /*0 list 1 map 2 vector*/)
{
    switch (cur_cls * 3 + kind) {
    case 0: return SPIF_OBJ(SPIF_LIST_NEW(array));
    case 1: return SPIF_OBJ(SPIF_MAP_NEW(array));
    case 2: return SPIF_OBJ(SPIF_VECTOR_NEW(array));
    case 3: return SPIF_OBJ(SPIF_LIST_NEW(linked_list));
    case 4: return SPIF_OBJ(SPIF_MAP_NEW(linked_list));
    case 5: return SPIF_OBJ(SPIF_VECTOR_NEW(linked_list));
    case 6: return SPIF_OBJ(SPIF_LIST_NEW(dlinked_list));
    case 7: return SPIF_OBJ(SPIF_MAP_NEW(dlinked_list));
    default: return SPIF_OBJ(SPIF_VECTOR_NEW(dlinked_list));
    }
}

/* ------------------------------------------------------------------ structure walks */
/* element pointer -> (root, key), validating that it is a live element (or a live pair for maps) */
static void elem_ident(spif_obj_t e, int is_map, long *root, long *key, long *val, const char *when)
{
    if (!e) { *root = HOLE; *key = 0; *val = 0; return; }
    if (is_map) {
        spif_objpair_t p = SPIF_OBJPAIR(e);
        if (!sa_readable(p, sizeof(*p)) || !SPIF_OBJ_IS_OBJPAIR(p)) FAILI("dangling-element", "%s: stored pair is not a live objpair", when);
        if (!vobj_valid(p->key)) FAILI("dangling-element", "%s: stored pair's key is not a live element", when);
        if (p->value && !vobj_valid(p->value)) FAILI("dangling-element", "%s: stored pair's value is not a live element", when);
        *root = ((vobj_t)p->key)->root; *key = ((vobj_t)p->key)->key; *val = p->value ? ((vobj_t)p->value)->key : -1;
        return;
    }
    if (!vobj_valid(e)) FAILI("dangling-element", "%s: stored element pointer is not a live element", when);
    *root = ((vobj_t)e)->root; *key = ((vobj_t)e)->key; *val = 0;
}

/* walk the container's own structure and produce its element pointers (bounded, pointer-validated) */
static int walk(spif_obj_t c, spif_obj_t *out, const char *when)
{
    int n = 0;
    if (cur_cls == 0) {
        spif_array_t a = SPIF_ARRAY(c);
        void *base; size_t bsz; int live;
        if (!sa_readable(a, sizeof(*a))) FAILI("container-block", "%s: container object is not live", when);
        if (a->len < 0 || a->len > MAXLEN * 4) FAILI("len-range", "%s: len=%d", when, a->len);
        if (a->len == 0) return 0;
        if (!a->items || !sa_lookup(a->items, &base, &bsz, &live, NULL) || !live || base != (void *)a->items)
            FAILI("items-block", "%s: items pointer is not the start of a live block (len %d)", when, a->len);
        if (bsz < (size_t)a->len * sizeof(spif_obj_t)) FAILI("items-capacity", "%s: items block has %zu bytes for %d slots", when, bsz, a->len);
        for (int i = 0; i < a->len && n < MAXLEN; i++) out[n++] = a->items[i];
        return n;
    } else if (cur_cls == 1) {
        spif_linked_list_t l = SPIF_LINKED_LIST(c);
        spif_linked_list_item_t it;
        if (!sa_readable(l, sizeof(*l))) FAILI("container-block", "%s: container object is not live", when);
        if (l->len < 0 || l->len > MAXLEN * 4) FAILI("len-range", "%s: len=%d", when, l->len);
        for (it = l->head; it; it = it->next) {
            if (!sa_readable(it, sizeof(*it))) FAILI("dangling-link", "%s: node %d of the chain is not a live block", when, n);
            if (n >= l->len) FAILI("chain-length", "%s: chain is longer than len=%d", when, l->len);
            out[n++] = it->data;
        }
        if (n != l->len) FAILI("chain-length", "%s: chain has %d nodes, len=%d", when, n, l->len);
        return n;
    } else {
        spif_dlinked_list_t l = SPIF_DLINKED_LIST(c);
        spif_dlinked_list_item_t it, prev = NULL;
        spif_obj_t back[MAXLEN];
        int nb = 0;
        if (!sa_readable(l, sizeof(*l))) FAILI("container-block", "%s: container object is not live", when);
        if (l->len < 0 || l->len > MAXLEN * 4) FAILI("len-range", "%s: len=%d", when, l->len);
        for (it = l->head; it; prev = it, it = it->next) {
            if (!sa_readable(it, sizeof(*it))) FAILI("dangling-link", "%s: node %d of the next-chain is not a live block", when, n);
            if (n >= l->len) FAILI("chain-length", "%s: next-chain is longer than len=%d", when, l->len);
            if (it->prev != prev) FAILI("prev-link", "%s: node %d has a prev link that does not point to its predecessor", when, n);
            out[n++] = it->data;
        }
        if (n != l->len) FAILI("chain-length", "%s: next-chain has %d nodes, len=%d", when, n, l->len);
        if (l->tail != prev) FAILI("tail", "%s: tail does not point to the last node of the next-chain", when);
        for (it = l->tail; it; it = it->prev) {
            if (!sa_readable(it, sizeof(*it))) FAILI("dangling-link", "%s: node of the prev-chain is not a live block", when);
            if (nb >= l->len) FAILI("chain-length", "%s: prev-chain is longer than len=%d", when, l->len);
            back[nb++] = it->data;
        }
        if (nb != n) FAILI("mirror", "%s: prev-chain has %d nodes, next-chain %d", when, nb, n);
        for (int i = 0; i < n; i++) if (back[n - 1 - i] != out[i]) FAILI("mirror", "%s: prev-chain is not the mirror image of the next-chain", when);
        return n;
    }
}

static void check_walk(int slot, int is_map, const char *when)
{
    spif_obj_t el[MAXLEN];
    model_t *m = &M[slot];
    int n;
    if (!C[slot]) return;
    n = walk(C[slot], el, when);
    if (n != m->len) FAILM("contents", "%s: container holds %d elements, ideal holds %d", when, n, m->len);
    for (int i = 0; i < n; i++) {
        long r, k, v;
        elem_ident(el[i], is_map, &r, &k, &v, when);
        if (is_map) {
            if (k != m->key[i] || v != m->val[i]) FAILM("contents", "%s: position %d holds key %ld -> value %ld, ideal has key %ld -> value %ld", when, i, k, v, m->key[i], m->val[i]);
        } else if (r != m->root[i]) FAILM("contents", "%s: position %d holds element #%ld (key %ld), ideal sequence has #%ld", when, i, r, k, m->root[i]);
    }
}

/* ------------------------------------------------------------------ model helpers */
static void m_ins(model_t *m, int at, long root, long key, long val)
{
    if (m->len >= MAXLEN) sim_skip("model-full");
    memmove(&m->root[at + 1], &m->root[at], (size_t)(m->len - at) * sizeof(long));
    memmove(&m->key[at + 1], &m->key[at], (size_t)(m->len - at) * sizeof(long));
    memmove(&m->val[at + 1], &m->val[at], (size_t)(m->len - at) * sizeof(long));
    m->root[at] = root; m->key[at] = key; m->val[at] = val; m->len++;
}
static void m_del(model_t *m, int at)
{
    memmove(&m->root[at], &m->root[at + 1], (size_t)(m->len - at - 1) * sizeof(long));
    memmove(&m->key[at], &m->key[at + 1], (size_t)(m->len - at - 1) * sizeof(long));
    memmove(&m->val[at], &m->val[at + 1], (size_t)(m->len - at - 1) * sizeof(long));
    m->len--;
}
static int m_find_key(const model_t *m, long key)
{
    for (int i = 0; i < m->len; i++) if (m->root[i] != HOLE && m->key[i] == key) return i;
    return -1;
}

/* ------------------------------------------------------------------ C02: lists */
static long readback_keys = 6;
static void list_readback(int slot, const char *when)
{
    spif_list_t l = C[slot];
    model_t *m = &M[slot];
    spif_iterator_t it;
    spif_obj_t *arr;
    long r, k, v;
    int n;
    if (!l) return;
    check_walk(slot, 0, when);
    n = (int)SPIF_LIST_COUNT(l);
    if (n != m->len) FAILM("count", "%s: count() returned %d, ideal sequence has %d", when, n, m->len);
    for (int i = -m->len - 1; i <= m->len; i++) {
        spif_obj_t e = SPIF_LIST_GET(l, i);
        int j = i < 0 ? i + m->len : i;
        if (j < 0 || j >= m->len) { if (e) FAILM("get-refusal", "%s: get(%d) on a %d-element list returned an element", when, i, m->len); continue; }
        elem_ident(e, 0, &r, &k, &v, when);
        if (r != m->root[j]) FAILM("get", "%s: get(%d) returned element #%ld, ideal sequence has #%ld there", when, i, r, m->root[j]);
    }
    it = SPIF_LIST_ITERATOR(l);
    if (!it) FAILM("iterator", "%s: iterator() returned NULL", when);
    for (int i = 0; i < m->len; i++) {
        spif_obj_t e;
        if (!SPIF_ITERATOR_HAS_NEXT(it)) FAILM("iterator", "%s: iterator reports exhaustion after %d of %d elements", when, i, m->len);
        e = SPIF_ITERATOR_NEXT(it);
        elem_ident(e, 0, &r, &k, &v, when);
        if (r != m->root[i]) FAILM("iterator", "%s: iterator yielded element #%ld at step %d, ideal sequence has #%ld", when, r, i, m->root[i]);
    }
    if (SPIF_ITERATOR_HAS_NEXT(it)) FAILM("iterator", "%s: iterator still has_next after %d elements", when, m->len);
    SPIF_ITERATOR_DEL(it);
    {
        arr = SPIF_LIST_TO_ARRAY(l);                 /* (of an empty list: nothing, or an array with nothing in it) */
        if (m->len && (!arr || !sa_readable(arr, (size_t)m->len * sizeof(spif_obj_t)))) FAILM("to_array", "%s: to_array result is not a live block of %d pointers", when, m->len);
        if (!m->len && arr && !sa_readable(arr, 0)) FAILM("to_array", "%s: to_array of an empty list returned something that is not a live block", when);
        for (int i = 0; i < m->len; i++) {
            elem_ident(arr[i], 0, &r, &k, &v, when);
            if (r != m->root[i]) FAILM("to_array", "%s: to_array[%d] is element #%ld, ideal sequence has #%ld", when, i, r, m->root[i]);
        }
        if (arr) sim_free(arr);
    }
    {
        /* far outside positions are refused like near ones */
        static const long far[] = { 2, 50, 1L << 30 };
        for (int q = 0; q < 3; q++) {
            if (SPIF_LIST_GET(l, (spif_listidx_t)(m->len + far[q]))) FAILM("get-refusal", "%s: get(len+%ld) returned an element", when, far[q]);
            if (SPIF_LIST_GET(l, (spif_listidx_t)(-m->len - far[q]))) FAILM("get-refusal", "%s: get(-len-%ld) returned an element", when, far[q]);
        }
    }
    for (long key = -1; key <= readback_keys && (m->len <= 16 || R.cur_op_index % 4 == 0); key++) {
        /* every value there is, present or not: position of the first equal element, the element itself, membership
           (on long lists only after every fourth operation: the sweep is quadratic) */
        vobj_t probe = VNEW(key);
        int j = m_find_key(m, key), gi = (int)SPIF_LIST_INDEX(l, probe);
        spif_obj_t gf = SPIF_LIST_FIND(l, probe);
        spif_bool_t gc = SPIF_LIST_CONTAINS(l, probe);
        if (gi != j) FAILM("index", "%s: index(%ld) returned %d, ideal sequence says %d", when, key, gi, j);
        if ((j < 0) != (gf == NULL)) FAILM("find", "%s: find(%ld) returned %s, ideal sequence says the value is %s", when, key, gf ? "an element" : "NULL", j < 0 ? "absent" : "present");
        if (gf == SPIF_OBJ(probe)) FAILM("find", "%s: find(%ld) returned the probe object, not the stored element", when, key);
        if (gf) { elem_ident(gf, 0, &r, &k, &v, when); if (k != key) FAILM("find", "%s: find(%ld) returned element #%ld with key %ld, not an element equal to the probe", when, key, r, k); }
        if ((gc ? 1 : 0) != (j >= 0)) FAILM("contains", "%s: contains(%ld) returned %d, ideal sequence says %d", when, key, (int)gc, j >= 0);
        SPIF_OBJ_DEL(probe);
    }
}

/* positions can be given symbolically (a[last] == 1): class * 100 + delta, resolved against the length the sequence has when the
   operation runs -- a generator's own estimate of that length drifts as refusals and misses accumulate */
static long resolve_idx(long code, int len)
{
    long d = code % 100;
    switch (code / 100) {
    case 0: return -len - 2; case 1: return -len - 1; case 2: return -len; case 3: return -1; case 4: return 0; case 5: return 1;
    case 6: return len / 2; case 7: return len - 1; case 8: return len; case 9: return len + 1 + d % 3;
    case 10: return len ? d % len : 0; case 11: return -2; case 12: return -(len / 2); case 13: return len / 2 + 1; case 14: return len + 50;
    case 15: return len ? -(d % len) - 1 : -1;
    default: return 0;
    }
}
/* a copy of an iterator (the dup slot of the iterator classes): the statements do not say where a copy stands, but they do say the
   three classes are interchangeable -- so whatever the first class of a run does (how many elements the copy and the original
   each still yield after k steps), the others must do too; and a copy is a separate object that can be deleted on its own */
static int iterdup_first_cls = -1;
static short iterdup_obs[PLAN_MAXOPS][3];
static void iter_dup_check(spif_iterator_t a, int len, long sel, int opidx, const char *k)
{
    int adv = (int)(sel % (len + 1)), c1 = 0, c2 = 0;
    spif_iterator_t c;
    for (int q = 0; q < adv; q++) (void)SPIF_ITERATOR_NEXT(a);
    c = (spif_iterator_t)SPIF_ITERATOR_DUP(a);
    if (!c) FAILM("iterator-copy", "dup of an iterator returned NULL");
    if (c == a) FAILM("iterator-copy", "dup of an iterator returned the iterator itself");
    while (SPIF_ITERATOR_HAS_NEXT(c) && c1 <= len + 1) { (void)SPIF_ITERATOR_NEXT(c); c1++; }
    while (SPIF_ITERATOR_HAS_NEXT(a) && c2 <= len + 1) { (void)SPIF_ITERATOR_NEXT(a); c2++; }
    if (c2 != len - adv) FAILM("iterator", "after being copied, an iterator that had yielded %d of %d elements went on to yield %d", adv, len, c2);
    SPIF_ITERATOR_DEL(c);
    SPIF_ITERATOR_DEL(a);
    if (opidx >= 0 && opidx < PLAN_MAXOPS) {
        if (cur_cls == iterdup_first_cls) { iterdup_obs[opidx][0] = (short)c1; iterdup_obs[opidx][1] = (short)adv; iterdup_obs[opidx][2] = (short)len; }
        else if (iterdup_obs[opidx][1] == adv && iterdup_obs[opidx][2] == len && iterdup_obs[opidx][0] != c1)      /* (comparable only where the classes hold as many elements: which of several equal elements a removal takes is theirs to choose) */
            FAILM("iterator-copy", "%s: the copy of an iterator that had yielded %d of %d elements yields %d more in this class and %d in class %s", k, adv, len, c1, iterdup_obs[opidx][0], cls_name[iterdup_first_cls]);
    }
    probe_hit("iterator_copied");
}
static int sparse_now(void);
static void list_bare_query(int slot, const char *when);
static void vector_bare_query(int slot, const char *when);
static void map_bare_query(int slot, const char *when);
/* One object may sit in a list twice (appended twice): it is then there twice, goes twice, and is deleted once -- by the harness,
   when the list has let go of its last occurrence; surplus occurrences are taken out (by position) before a list is deleted. */
static int list_holds_ptr(spif_obj_t l, spif_obj_t e, const char *when)
{
    spif_obj_t el[MAXLEN];
    int n = walk(l, el, when), c = 0;
    for (int q = 0; q < n; q++) if (el[q] == e) c++;
    return c;
}
static void list_drop_surplus(spif_obj_t l, const char *when)
{
    spif_obj_t el[MAXLEN];
    int n = walk(l, el, when);
    for (int a = n - 1; a > 0; a--) {
        int earlier = 0;
        for (int b = 0; b < a; b++) if (el[a] && el[b] == el[a]) earlier = 1;
        if (earlier && SPIF_LIST_REMOVE_AT(l, (spif_listidx_t)a) != el[a]) FAILM("remove_at", "%s: remove_at(%d) did not hand back the element stored there", when, a);
    }
}

/* Which of several equal elements a remove() hands back is not said -- equal is equal.  What the list holds afterwards is:
   "the same elements in the same order" as the ideal sequence, from which the FIRST element equal to the probe has gone.  Taking
   a later one is the same thing only where everything in between is equal to it as well (then the values that remain, in order,
   are those of the ideal sequence); with another value in between, [d, m, d] becomes [d, m] where the ideal sequence and the
   other classes hold [m, d]. */
static void remove_order_check(const model_t *m, int first, int taken, const char *when)
{
    for (int q = first; q <= taken && q < m->len; q++)
        if (m->key[q] != m->key[first])
            FAILM("remove-order", "%s: the element at position %d went instead of the first equal one at position %d, with another value (position %d) in between: what remains is not the ideal sequence", when, taken, first, q);
    probe_hit("later_duplicate_adjacent_run");
}

static void list_pass(const plan_t *p)
{
    memset(C, 0, sizeof(C));
    for (int i = 0; i < NSLOT; i++) M[i].len = 0;
    vobj_reset();
    for (int i = 0; i < p->nops; i++) {
        op_t *o = (op_t *)&p->ops[i];
        const char *k = o->kind;
        int s = (int)o->a[0];
        spif_list_t l;
        model_t *m;
        R.cur_op = o; R.cur_op_index = i; R.op_steps = 0;
        if (s < 0 || s >= NSLOT) sim_skip("bad-slot");
        paint_stack((int)plan_get(p, "stack.paint", 0xA5), 1536);   /* leftover stack contents are an input too */
        l = C[s]; m = &M[s];
        sa_set_tag(i + 1);
        if (!strcmp(k, "new")) {
            if (l) continue;
            C[s] = new_container(0); m->len = 0;
            if (!C[s]) FAILM("new", "constructor returned NULL");
        } else if (!l) continue;
        else if (!strcmp(k, "append") || !strcmp(k, "prepend")) {
            vobj_t e = VNEW(o->a[1]);
            spif_bool_t b = k[0] == 'a' ? SPIF_LIST_APPEND(l, e) : SPIF_LIST_PREPEND(l, e);
            if (!b) FAILM("return", "%s returned FALSE", k);
            m_ins(m, k[0] == 'a' ? m->len : 0, e->root, e->key, 0);
        } else if (!strcmp(k, "append_again")) {
            /* append/prepend of an object the list already holds */
            spif_obj_t el[MAXLEN], pick = NULL;
            long r, kk, vv;
            int n, at;
            spif_bool_t b;
            if (!m->len || m->len >= MAXLEN - 60) continue;
            n = walk(l, el, k);
            if (n != m->len) FAILM("contents", "list holds %d elements, ideal sequence has %d", n, m->len);
            at = (int)((unsigned long)o->a[1] % (unsigned long)n);
            for (int q = 0; q < n && !pick; q++) pick = el[(at + q) % n];
            if (!pick) continue;                                   /* nothing but placeholders */
            elem_ident(pick, 0, &r, &kk, &vv, k);
            b = o->a[2] ? SPIF_LIST_PREPEND(l, pick) : SPIF_LIST_APPEND(l, pick);
            if (!b) FAILM("return", "%s of an object the list already holds returned FALSE", o->a[2] ? "prepend" : "append");
            m_ins(m, o->a[2] ? 0 : m->len, r, kk, 0);
            probe_hit("same_object_in_list_twice");
        } else if (!strcmp(k, "insert_at")) {
            vobj_t e;
            long idx = o->na > 3 && o->a[3] == 1 ? resolve_idx(o->a[2], m->len) : o->a[2], j = idx < 0 ? idx + m->len : idx;
            spif_bool_t b;
            if (j > MAXLEN - 200 || m->len >= MAXLEN - 60) continue;
            e = VNEW(o->a[1]);
            b = SPIF_LIST_INSERT_AT(l, e, (spif_listidx_t)idx);
            if (j < 0) {
                probe_hit("insert_at_refused");
                if (b) FAILM("insert_at-refusal", "insert_at(%ld) on a %d-element list normalises below zero but was accepted", idx, m->len);
                SPIF_OBJ_DEL(e);
            } else {
                if (!b) FAILM("insert_at", "insert_at(%ld) on a %d-element list returned FALSE", idx, m->len);
                if (j > m->len) probe_hit("insert_at_hole_created");
                if (j == m->len) probe_hit("insert_at_len");
                while (m->len < j) m_ins(m, m->len, HOLE, 0, 0);
                m_ins(m, (int)j, e->root, e->key, 0);
            }
        } else if (!strcmp(k, "remove") && o->na > 2 && o->a[2] == 1 && m->len) {
            /* the probe is an element of the list itself (what get() hands out): the first element equal to it goes */
            int pos = (int)(o->a[1] % m->len), j;
            spif_obj_t own = SPIF_LIST_GET(l, (spif_listidx_t)pos), got;
            long r, kk, v;
            if (m->root[pos] == HOLE || !own) continue;
            j = m_find_key(m, m->key[pos]);
            got = SPIF_LIST_REMOVE(l, own);
            if (!got) FAILM("remove", "remove(get(%d)) returned NULL", pos);
            elem_ident(got, 0, &r, &kk, &v, k);
            if (r != m->root[j]) { int alt = -1; for (int q = 0; q < m->len; q++) if (m->root[q] == r && m->key[q] == m->key[pos]) alt = q; if (alt < 0) FAILM("remove", "remove(get(%d)) returned element #%ld, which is not an element equal to the probe", pos, r); remove_order_check(m, j, alt, k); j = alt; }
            m_del(m, j);
            if (!list_holds_ptr(l, got, k)) SPIF_OBJ_DEL(got);
            probe_hit("probe_is_own_element");
        } else if (!strcmp(k, "remove")) {
            vobj_t probe = VNEW(o->a[1]);
            spif_obj_t got = SPIF_LIST_REMOVE(l, probe);
            int j = m_find_key(m, o->a[1]);
            SPIF_OBJ_DEL(probe);
            if (j < 0) { if (got) FAILM("remove", "remove of an absent value returned an element"); }
            else {
                long r, kk, v;
                if (!got) FAILM("remove", "remove of a present value (position %d) returned NULL", j);
                elem_ident(got, 0, &r, &kk, &v, k);
                /* which of several equal elements goes is not said: the one handed back is the one that must be gone */
                if (r != m->root[j]) { int alt = -1; for (int q = 0; q < m->len; q++) if (m->root[q] == r && m->key[q] == o->a[1]) alt = q; if (alt < 0) FAILM("remove", "remove returned element #%ld, which is not an element equal to the probe", r); remove_order_check(m, j, alt, k); j = alt; probe_hit("removed_a_later_duplicate"); }
                if (j == m->len - 1) probe_hit("removed_last");
                m_del(m, j);
                if (!list_holds_ptr(l, got, k)) SPIF_OBJ_DEL(got);
            }
        } else if (!strcmp(k, "remove_at")) {
            long idx = o->na > 2 && o->a[2] == 1 ? resolve_idx(o->a[1], m->len) : o->a[1], j = idx < 0 ? idx + m->len : idx;
            spif_obj_t got = SPIF_LIST_REMOVE_AT(l, (spif_listidx_t)idx);
            if (j < 0 || j >= m->len) { probe_hit("remove_at_refused"); if (got) FAILM("remove_at-refusal", "remove_at(%ld) on a %d-element list returned an element", idx, m->len); }
            else {
                long r, kk, v;
                elem_ident(got, 0, &r, &kk, &v, k);
                if (r != m->root[j]) FAILM("remove_at", "remove_at(%ld) returned element #%ld, ideal sequence has #%ld there", idx, r, m->root[j]);
                if (j == m->len - 1) probe_hit("removed_last");
                m_del(m, (int)j);
                if (got && !list_holds_ptr(l, got, k)) SPIF_OBJ_DEL(got); else if (got) probe_hit("one_occurrence_of_two_removed");
            }
        } else if (!strcmp(k, "index") || !strcmp(k, "find") || !strcmp(k, "contains")) {
            vobj_t probe = VNEW(o->a[1]);
            int j = m_find_key(m, o->a[1]);
            if (k[0] == 'i') {
                int got = (int)SPIF_LIST_INDEX(l, probe);
                if (got != j) FAILM("index", "index() returned %d, ideal sequence says %d", got, j);
            } else if (k[0] == 'f') {
                spif_obj_t got = SPIF_LIST_FIND(l, probe);
                long r, kk, v;
                if ((j < 0) != (got == NULL)) FAILM("find", "find() returned %s, ideal sequence says the value is %s", got ? "an element" : "NULL", j < 0 ? "absent" : "present");
                if (got == SPIF_OBJ(probe)) FAILM("find", "find() returned the probe object, not the stored element");
                if (got) { elem_ident(got, 0, &r, &kk, &v, k); if (kk != o->a[1]) FAILM("find", "find() returned element #%ld with key %ld, not an element equal to the probe", r, kk); }
            } else {
                spif_bool_t got = SPIF_LIST_CONTAINS(l, probe);
                if ((got ? 1 : 0) != (j >= 0)) FAILM("contains", "contains() returned %d, ideal sequence says %d", (int)got, j >= 0);
            }
            SPIF_OBJ_DEL(probe);
        } else if (!strcmp(k, "reverse")) {
            if (!SPIF_LIST_REVERSE(l)) FAILM("return", "reverse returned FALSE");
            for (int a = 0, z = m->len - 1; a < z; a++, z--) {
                long t;
                t = m->root[a]; m->root[a] = m->root[z]; m->root[z] = t;
                t = m->key[a]; m->key[a] = m->key[z]; m->key[z] = t;
            }
            if (m->len == 0) probe_hit("reverse_empty");
        } else if (!strcmp(k, "iter_beyond")) {
            spif_iterator_t it = SPIF_LIST_ITERATOR(l);
            for (int q = 0; q < m->len; q++) SPIF_ITERATOR_NEXT(it);
            for (int q = 0; q < (int)o->a[1] + 1; q++) {
                if (SPIF_ITERATOR_HAS_NEXT(it)) FAILM("iterator", "has_next is true beyond the end");
                (void)SPIF_ITERATOR_NEXT(it);                 /* (what it hands out there is not specified; it must not crash or come back to life) */
            }
            SPIF_ITERATOR_DEL(it);
            probe_hit("iterator_one_past_end");
        } else if (!strcmp(k, "iter_dup")) {
            iter_dup_check(SPIF_LIST_ITERATOR(l), m->len, o->a[1], i, k);
        } else if (!strcmp(k, "iter_partial")) {
            /* two iterators over one list: one is advanced part of the way and deleted (its cursor is a node the list owns),
               the other then walks the whole list */
            spif_iterator_t a = SPIF_LIST_ITERATOR(l), b = SPIF_LIST_ITERATOR(l);
            int adv = m->len ? (int)(o->a[1] % (m->len + 1)) : 0;
            long r, kk, v;
            for (int q = 0; q < adv; q++) SPIF_ITERATOR_NEXT(a);
            SPIF_ITERATOR_DEL(a);
            for (int q = 0; q < m->len; q++) {
                spif_obj_t e;
                if (!SPIF_ITERATOR_HAS_NEXT(b)) FAILM("iterator", "second iterator reports exhaustion after %d of %d elements", q, m->len);
                e = SPIF_ITERATOR_NEXT(b);
                elem_ident(e, 0, &r, &kk, &v, k);
                if (r != m->root[q]) FAILM("iterator", "second iterator yielded element #%ld at step %d, ideal sequence has #%ld", r, q, m->root[q]);
            }
            if (SPIF_ITERATOR_HAS_NEXT(b)) FAILM("iterator", "second iterator still has_next after the last element");
            SPIF_ITERATOR_DEL(b);
            probe_hit("iterator_abandoned_midway");
        } else if (!strcmp(k, "dup")) {
            int d = (int)o->a[1];
            int has_hole = 0;
            if (d < 0 || d >= NSLOT || C[d]) continue;
            for (int q = 0; q < m->len; q++) if (m->root[q] == HOLE) has_hole = 1;
            if (!m->len) probe_hit("dup_of_empty_container");
            if (has_hole) probe_hit("dup_of_container_with_hole");
            C[d] = SPIF_OBJ_DUP(l);
            if (!C[d] || C[d] == l) FAILM("dup", "dup returned %s", C[d] ? "the same object" : "NULL");
            M[d] = *m;
            probe_hit("list_dup");
        } else if (!strcmp(k, "del")) {
            list_drop_surplus(l, k);
            SPIF_LIST_DEL(l);
            C[s] = NULL; m->len = 0;
        } else continue;
        tr_printf("%s[%s] slot%d -> len=%d", k, cls_name[cur_cls], s, M[s].len);
        for (int q = 0; q < NSLOT; q++) { if (sparse_now()) list_bare_query(q, k); else list_readback(q, k); }
        tr_u64("alloc", sa_live_digest());
    }
    R.cur_op = NULL;
    for (int q = 0; q < NSLOT; q++) if (C[q]) { list_drop_surplus(C[q], "end"); SPIF_LIST_DEL(C[q]); C[q] = NULL; }
}

/* ------------------------------------------------------------------ C04: vectors */
static long vec_keys = 9;
static void vector_readback(int slot, const char *when)
{
    spif_vector_t v = C[slot];
    model_t *m = &M[slot];
    spif_obj_t el[MAXLEN];
    spif_iterator_t it;
    long r, k, vv, prevk = -1000000;
    int n, used[MAXLEN];
    if (!v) return;
    n = walk(v, el, when);
    if (n != m->len) FAILM("contents", "%s: vector holds %d elements, ideal multiset has %d", when, n, m->len);
    memset(used, 0, sizeof(used));
    for (int i = 0; i < n; i++) {
        int hit = -1;
        elem_ident(el[i], 0, &r, &k, &vv, when);
        if (r == HOLE) FAILM("contents", "%s: vector holds a NULL element at position %d", when, i);
        if (k < prevk) FAILM("order", "%s: element at position %d (key %ld) is smaller than its predecessor (key %ld)", when, i, k, prevk);
        prevk = k;
        for (int j = 0; j < m->len; j++) if (!used[j] && m->root[j] == r) { hit = j; break; }
        if (hit < 0) FAILM("contents", "%s: vector holds element #%ld which the ideal multiset does not", when, r);
        used[hit] = 1;
    }
    if ((int)SPIF_VECTOR_COUNT(v) != m->len) FAILM("count", "%s: count() returned %d, ideal multiset has %d", when, (int)SPIF_VECTOR_COUNT(v), m->len);
    it = SPIF_VECTOR_ITERATOR(v);
    if (!it) FAILM("iterator", "%s: iterator() returned NULL", when);
    for (int i = 0; i < n; i++) {
        spif_obj_t e;
        if (!SPIF_ITERATOR_HAS_NEXT(it)) FAILM("iterator", "%s: iterator reports exhaustion after %d of %d elements", when, i, n);
        e = SPIF_ITERATOR_NEXT(it);
        if (e != el[i]) FAILM("iterator", "%s: iterator step %d does not yield the element stored at that position", when, i);
    }
    if (SPIF_ITERATOR_HAS_NEXT(it)) FAILM("iterator", "%s: iterator still has_next after %d elements", when, n);
    SPIF_ITERATOR_DEL(it);
    {
        spif_obj_t *arr = SPIF_VECTOR_TO_ARRAY(v);      /* (of an empty vector: nothing, or an array with nothing in it) */
        if (n && (!arr || !sa_readable(arr, (size_t)n * sizeof(spif_obj_t)))) FAILM("to_array", "%s: to_array result is not a live block of %d pointers", when, n);
        if (!n && arr && !sa_readable(arr, 0)) FAILM("to_array", "%s: to_array of an empty vector returned something that is not a live block", when);
        for (int i = 0; i < n; i++) if (arr[i] != el[i]) FAILM("to_array", "%s: to_array[%d] differs from the stored element", when, i);
        if (arr) sim_free(arr);
    }
    for (long key = -1; key <= vec_keys && (m->len <= 16 || R.cur_op_index % 4 == 0); key++) {
        /* every value there is, present or not */
        vobj_t probe = VNEW(key);
        int present = m_find_key(m, key) >= 0;
        spif_obj_t gf = SPIF_VECTOR_FIND(v, probe);
        spif_bool_t gc = SPIF_VECTOR_CONTAINS(v, probe);
        if ((gf != NULL) != present) FAILM("find", "%s: find(key %ld) returned %s, ideal multiset says the key is %s", when, key, gf ? "an element" : "NULL", present ? "present" : "absent");
        if (gf) { elem_ident(gf, 0, &r, &k, &vv, when); if (k != key) FAILM("find", "%s: find(key %ld) returned an element with key %ld", when, key, k); }
        if ((gc ? 1 : 0) != present) FAILM("contains", "%s: contains(key %ld) returned %d, ideal multiset says %d", when, key, (int)gc, present);
        SPIF_OBJ_DEL(probe);
    }
}

/* The same OBJECT may be handed to insert() twice: the multiset then holds it twice (the statement's "duplicate" does not ask
   whose duplicate), it has to be taken out twice, and it belongs to its owner only once -- so the harness deletes a removed
   element only when the vector has let go of its last occurrence, and takes surplus occurrences out before a vector is deleted
   (del() deletes what the vector holds, once per slot). */
static int vec_holds_ptr(spif_obj_t v, spif_obj_t e, const char *when)
{
    spif_obj_t el[MAXLEN];
    int n = walk(v, el, when), c = 0;
    for (int q = 0; q < n; q++) if (el[q] == e) c++;
    return c;
}
static void vec_drop_surplus(spif_obj_t v, const char *when)
{
    /* remove() takes out *an* element equal to its argument, not necessarily the argument: everything equal to a twice-held
       object is taken out and each distinct object put back once */
    spif_obj_t el[MAXLEN], out[MAXLEN], got;
    int n = walk(v, el, when);
    for (int a = 0; a < n; a++) {
        int earlier = 0, no = 0;
        for (int b = 0; b < a; b++) if (el[b] == el[a]) earlier = 1;
        if (!earlier || vec_holds_ptr(v, el[a], when) < 2) continue;
        while ((got = SPIF_VECTOR_REMOVE(v, el[a])) != NULL && no < MAXLEN) {
            int seen = 0;
            for (int q = 0; q < no; q++) if (out[q] == got) seen = 1;
            if (!seen) out[no++] = got;
        }
        for (int q = 0; q < no; q++) if (!SPIF_VECTOR_INSERT(v, out[q])) FAILM("return", "%s: insert returned FALSE", when);
    }
}

static void vector_pass(const plan_t *p)
{
    vec_keys = plan_get(p, "keys", 8) + 1;
    memset(C, 0, sizeof(C));
    for (int i = 0; i < NSLOT; i++) M[i].len = 0;
    vobj_reset();
    for (int i = 0; i < p->nops; i++) {
        op_t *o = (op_t *)&p->ops[i];
        const char *k = o->kind;
        int s = (int)o->a[0];
        spif_vector_t v;
        model_t *m;
        R.cur_op = o; R.cur_op_index = i; R.op_steps = 0;
        if (s < 0 || s >= NSLOT) sim_skip("bad-slot");
        paint_stack((int)plan_get(p, "stack.paint", 0xA5), 1536);   /* leftover stack contents are an input too */
        v = C[s]; m = &M[s];
        sa_set_tag(i + 1);
        if (!strcmp(k, "addrvec")) {
            /* a vector of plain objects, which the library orders by address (spif_obj_comp): a self-contained episode with objects
               that lie gigabytes apart, so that the order is decided by more than the low 32 bits of an address difference */
            int n = (int)o->a[1] < 2 ? 2 : (int)o->a[1] > 6 ? 6 : (int)o->a[1];
            spif_obj_t e[6], sorted[6], *arr;
            spif_vector_t av;
            spif_iterator_t it;
            unsigned long ord = (unsigned long)o->a[2];
            sa_force_far(1);
            for (int q = 0; q < n; q++) e[q] = spif_obj_new();
            sa_force_far(0);
            av = new_container(2);
            for (int q = 0; q < n; q++) sorted[q] = e[q];
            for (int a = 0; a < n; a++) for (int b = a + 1; b < n; b++) if ((uintptr_t)sorted[b] < (uintptr_t)sorted[a]) { spif_obj_t t = sorted[a]; sorted[a] = sorted[b]; sorted[b] = t; }
            for (int q = 0; q < n; q++) { int j = (int)((ord + (unsigned long)q * 5) % (unsigned long)n); spif_obj_t t = e[q]; e[q] = e[j]; e[j] = t; }      /* seeded insertion order */
            for (int q = 0; q < n; q++) if (!SPIF_VECTOR_INSERT(av, e[q])) FAILM("return", "insert of a plain object returned FALSE");
            if ((int)SPIF_VECTOR_COUNT(av) != n) FAILM("count", "vector of %d plain objects reports %d", n, (int)SPIF_VECTOR_COUNT(av));
            arr = SPIF_VECTOR_TO_ARRAY(av);
            for (int q = 0; q < n; q++) if (!arr || arr[q] != sorted[q]) FAILM("order", "to_array of %d plain objects (ordered by address, up to %d GiB apart): position %d does not hold the object with the %d-th smallest address", n, 6 * (n - 1), q, q);
            if (arr) sim_free(arr);
            it = SPIF_VECTOR_ITERATOR(av);
            for (int q = 0; q < n; q++) { if (!SPIF_ITERATOR_HAS_NEXT(it) || SPIF_ITERATOR_NEXT(it) != sorted[q]) FAILM("iterator", "iteration over %d plain objects is not in ascending address order at position %d", n, q); }
            if (SPIF_ITERATOR_HAS_NEXT(it)) FAILM("iterator", "iterator over %d plain objects is not exhausted after %d", n, n);
            SPIF_ITERATOR_DEL(it);
            for (int q = 0; q < n; q++) {
                if (SPIF_VECTOR_FIND(av, sorted[q]) != sorted[q]) FAILM("find", "find of a stored plain object (%d of %d by address) did not return it", q, n);
                if (!SPIF_VECTOR_CONTAINS(av, sorted[q])) FAILM("find", "contains of a stored plain object (%d of %d by address) is FALSE", q, n);
            }
            for (int q = 0; q < n; q++) {
                spif_obj_t got = SPIF_VECTOR_REMOVE(av, e[q]);
                if (got != e[q]) FAILM("remove", "remove of a stored plain object did not hand it back");
                if (SPIF_VECTOR_CONTAINS(av, e[q])) FAILM("remove", "a removed plain object is still reported as contained");
                spif_obj_del(got);
            }
            SPIF_VECTOR_DEL(av);
            probe_hit("plain_objects_gigabytes_apart");
            continue;
        }
        if (!strcmp(k, "new")) {
            if (v) continue;
            C[s] = new_container(2); m->len = 0;
        } else if (!v) continue;
        else if (!strcmp(k, "bulk")) {
            /* a thousand and more insertions in one operation (a plan holds 600 operations at most): the sizes where growth policies change */
            long n = o->a[1], stride = o->a[2] | 1, base = o->a[3];
            for (long q = 0; q < n && m->len < MAXLEN - 2; q++) {
                vobj_t e = VNEW((base + q * stride) % (vec_keys + 1));
                if (!SPIF_VECTOR_INSERT(v, e)) FAILM("return", "insert returned FALSE");
                m_ins(m, m->len, e->root, e->key, 0);
            }
            probe_hit("vector_beyond_a_thousand");
        }
        else if (!strcmp(k, "insert")) {
            vobj_t e;
            long mn = 1000000, mx = -1000000;
            if (m->len >= MAXLEN - 2) continue;
            for (int q = 0; q < m->len; q++) { if (m->key[q] < mn) mn = m->key[q]; if (m->key[q] > mx) mx = m->key[q]; }
            if (m->len == 1 && o->a[1] == mx) probe_hit("insert_duplicate_of_only_element");
            else if (m->len && o->a[1] == mx) probe_hit("insert_duplicate_of_max");
            if (m->len && o->a[1] < mn) probe_hit("insert_below_min");
            e = VNEW(o->a[1]);
            if (!SPIF_VECTOR_INSERT(v, e)) FAILM("return", "insert returned FALSE");
            m_ins(m, m->len, e->root, e->key, 0);
        } else if (!strcmp(k, "remove") && o->na > 2 && o->a[2] == 1) {
            /* remove(v, find(v, key)): the probe is the stored element itself */
            vobj_t probe = VNEW(o->a[1]);
            spif_obj_t own = SPIF_VECTOR_FIND(v, probe), got;
            long r, kk, vv;
            int j = -1;
            SPIF_OBJ_DEL(probe);
            if (!own) continue;
            got = SPIF_VECTOR_REMOVE(v, own);
            if (!got) FAILM("remove", "remove(find(key %ld)) returned NULL", o->a[1]);
            elem_ident(got, 0, &r, &kk, &vv, k);
            if (kk != o->a[1]) FAILM("remove", "remove(find(key %ld)) returned an element with key %ld", o->a[1], kk);
            for (int q = 0; q < m->len; q++) if (m->root[q] == r) j = q;
            if (j < 0) FAILM("remove", "remove returned element #%ld which the ideal multiset does not hold", r);
            m_del(m, j); if (!vec_holds_ptr(v, got, k)) SPIF_OBJ_DEL(got);
            probe_hit("probe_is_own_element");
        } else if (!strcmp(k, "iter_dup")) {
            iter_dup_check(SPIF_VECTOR_ITERATOR(v), m->len, o->a[1], i, k);
        } else if (!strcmp(k, "iter_beyond") || !strcmp(k, "iter_partial")) {
            spif_iterator_t a = SPIF_VECTOR_ITERATOR(v), b = SPIF_VECTOR_ITERATOR(v);
            int adv = k[5] == 'p' ? (m->len ? (int)(o->a[1] % (m->len + 1)) : 0) : m->len, cnt = 0;
            for (int q = 0; q < adv; q++) SPIF_ITERATOR_NEXT(a);
            if (k[5] == 'b') for (int q = 0; q < (int)(o->a[1] % 3) + 1; q++) {
                if (SPIF_ITERATOR_HAS_NEXT(a)) FAILM("iterator", "has_next is true beyond the end");
                (void)SPIF_ITERATOR_NEXT(a);
            }
            SPIF_ITERATOR_DEL(a);
            while (SPIF_ITERATOR_HAS_NEXT(b) && cnt <= m->len) { SPIF_ITERATOR_NEXT(b); cnt++; }
            if (cnt != m->len) FAILM("iterator", "a second iterator yields %d elements after the first was deleted midway, the vector has %d", cnt, m->len);
            SPIF_ITERATOR_DEL(b);
            probe_hit(k[5] == 'b' ? "iterator_one_past_end" : "iterator_abandoned_midway");
        } else if (!strcmp(k, "find") || !strcmp(k, "contains") || !strcmp(k, "remove")) {
            vobj_t probe = VNEW(o->a[1]);
            int present = m_find_key(m, o->a[1]) >= 0;
            long mn = 1000000, mx = -1000000;
            for (int q = 0; q < m->len; q++) { if (m->key[q] < mn) mn = m->key[q]; if (m->key[q] > mx) mx = m->key[q]; }
            if (m->len && o->a[1] < mn) probe_hit("probe_below_min");
            if (m->len && o->a[1] > mx) probe_hit("probe_above_max");
            if (m->len == 1) probe_hit("single_element_vector");
            if (k[0] == 'c') {
                spif_bool_t got = SPIF_VECTOR_CONTAINS(v, probe);
                if ((got ? 1 : 0) != present) FAILM("contains", "contains(key %ld) returned %d, ideal multiset says %d", o->a[1], (int)got, present);
            } else {
                spif_obj_t got = k[0] == 'f' ? SPIF_VECTOR_FIND(v, probe) : SPIF_VECTOR_REMOVE(v, probe);
                long r, kk, vv;
                if ((got != NULL) != present) FAILM(k[0] == 'f' ? "find" : "remove", "%s(key %ld) returned %s, ideal multiset says the key is %s", k, o->a[1], got ? "an element" : "NULL", present ? "present" : "absent");
                if (got) {
                    int j = -1;
                    elem_ident(got, 0, &r, &kk, &vv, k);
                    if (kk != o->a[1]) FAILM(k[0] == 'f' ? "find" : "remove", "%s(key %ld) returned an element with key %ld", k, o->a[1], kk);
                    for (int q = 0; q < m->len; q++) if (m->root[q] == r) j = q;
                    if (j < 0) FAILM(k[0] == 'f' ? "find" : "remove", "%s returned element #%ld which the ideal multiset does not hold", k, r);
                    if (k[0] == 'r') { m_del(m, j); if (!vec_holds_ptr(v, got, k)) SPIF_OBJ_DEL(got); else probe_hit("one_occurrence_of_two_removed"); }
                }
            }
            SPIF_OBJ_DEL(probe);
        } else if (!strcmp(k, "dup")) {
            int d = (int)o->a[1];
            if (d < 0 || d >= NSLOT || C[d]) continue;
            if (!m->len) probe_hit("dup_of_empty_container");
            C[d] = SPIF_OBJ_DUP(v);
            if (!C[d] || C[d] == v) FAILM("dup", "dup returned %s", C[d] ? "the same object" : "NULL");
            M[d] = *m;
        } else if (!strcmp(k, "insert_again")) {
            /* insert(v, e) with an e the vector already holds */
            spif_obj_t el[MAXLEN], pick;
            long r, kk, vv;
            int n;
            if (!m->len || m->len >= MAXLEN - 2) continue;
            n = walk(v, el, k);
            if (n != m->len) FAILM("contents", "vector holds %d elements, ideal multiset has %d", n, m->len);
            pick = el[(unsigned long)o->a[1] % (unsigned long)n];
            elem_ident(pick, 0, &r, &kk, &vv, k);
            if (!SPIF_VECTOR_INSERT(v, pick)) FAILM("return", "insert of an object the vector already holds returned FALSE: the multiset holds what was inserted and not removed, however often");
            m_ins(m, m->len, r, kk, 0);
            probe_hit("same_object_inserted_twice");
        } else if (!strcmp(k, "del")) {
            vec_drop_surplus(v, k);
            SPIF_VECTOR_DEL(v);
            C[s] = NULL; m->len = 0;
        } else continue;
        tr_printf("%s[%s] slot%d -> len=%d", k, cls_name[cur_cls], s, M[s].len);
        for (int q = 0; q < NSLOT; q++) { if (sparse_now()) vector_bare_query(q, k); else vector_readback(q, k); }
        tr_u64("alloc", sa_live_digest());
    }
    R.cur_op = NULL;
    for (int q = 0; q < NSLOT; q++) if (C[q]) { vec_drop_surplus(C[q], "end"); SPIF_VECTOR_DEL(C[q]); C[q] = NULL; }
}

/* ------------------------------------------------------------------ C03: maps */
static void check_list_of(spif_list_t got, const model_t *m, int what /*0 keys 1 values 2 pairs*/, int skip, const char *when)
{
    int n;
    if (!got || !sa_readable(got, sizeof(void *))) FAILM("get_list", "%s: returned list is not a live object", when);
    n = (int)SPIF_LIST_COUNT(got);
    if (n != m->len + skip) FAILM("get_list", "%s: returned list has %d entries, ideal dictionary has %d", when, n - skip, m->len);
    for (int i = 0; i < m->len; i++) {
        spif_obj_t e = SPIF_LIST_GET(got, i + skip);
        if (!e) FAILM("get_list", "%s: entry %d of the returned list is NULL", when, i);
        if (what == 2) {
            spif_objpair_t pr = SPIF_OBJPAIR(e);
            if (!sa_readable(pr, sizeof(*pr)) || !SPIF_OBJ_IS_OBJPAIR(pr) || !vobj_valid(pr->key) || !vobj_valid(pr->value)) FAILM("get_list", "%s: entry %d is not a live pair of live elements", when, i);
            if (((vobj_t)pr->key)->key != m->key[i] || ((vobj_t)pr->value)->key != m->val[i])
                FAILM("get_list", "%s: pair %d is %ld -> %ld, ideal dictionary (ascending) has %ld -> %ld", when, i, ((vobj_t)pr->key)->key, ((vobj_t)pr->value)->key, m->key[i], m->val[i]);
        } else {
            long want = what == 0 ? m->key[i] : m->val[i];
            if (!vobj_valid(e)) FAILM("get_list", "%s: entry %d is not a live element", when, i);
            if (((vobj_t)e)->key != want) FAILM("get_list", "%s: entry %d is %ld, ideal dictionary (ascending) has %ld", when, i, ((vobj_t)e)->key, want);
        }
    }
}

static long map_keys = 9;
static void map_readback(int slot, const char *when)
{
    spif_map_t mp = C[slot];
    model_t *m = &M[slot];
    spif_iterator_t it;
    if (!mp) return;
    check_walk(slot, 1, when);
    for (int i = 1; i < m->len; i++) if (m->key[i - 1] >= m->key[i]) sim_skip("model-order");
    if ((int)SPIF_MAP_COUNT(mp) != m->len) FAILM("count", "%s: count() returned %d, ideal dictionary has %d", when, (int)SPIF_MAP_COUNT(mp), m->len);
    it = SPIF_MAP_ITERATOR(mp);
    if (!it) FAILM("iterator", "%s: iterator() returned NULL", when);
    for (int i = 0; i < m->len; i++) {
        spif_obj_t e;
        long r, k, v;
        if (!SPIF_ITERATOR_HAS_NEXT(it)) FAILM("iterator", "%s: iterator reports exhaustion after %d of %d pairs", when, i, m->len);
        e = SPIF_ITERATOR_NEXT(it);
        elem_ident(e, 1, &r, &k, &v, when);
        if (k != m->key[i] || v != m->val[i]) FAILM("iterator", "%s: iterator yielded %ld -> %ld at step %d, ideal dictionary has %ld -> %ld", when, k, v, i, m->key[i], m->val[i]);
    }
    if (SPIF_ITERATOR_HAS_NEXT(it)) FAILM("iterator", "%s: iterator still has_next after %d pairs", when, m->len);
    SPIF_ITERATOR_DEL(it);
    /* every key of the universe: get / has_key agree with the dictionary (on big maps only after every fourth operation) */
    for (long key = -1; key <= map_keys && (m->len <= 16 || R.cur_op_index % 4 == 0); key++) {
        vobj_t probe = VNEW(key);
        int j = m_find_key(m, key);
        spif_obj_t got = SPIF_MAP_GET(mp, probe);
        spif_bool_t hk = SPIF_MAP_HAS_KEY(mp, probe);
        if ((got != NULL) != (j >= 0)) FAILM("get", "%s: get(key %ld) returned %s, ideal dictionary says %s", when, key, got ? "a value" : "NULL", j >= 0 ? "present" : "absent");
        if ((hk ? 1 : 0) != (j >= 0)) FAILM("has_key", "%s: has_key(key %ld) returned %d, ideal dictionary says %d", when, key, (int)hk, j >= 0);
        if (got) {
            if (!vobj_valid(got)) FAILI("dangling-element", "%s: get(key %ld) returned a value that is not a live element", when, key);
            if (((vobj_t)got)->key != m->val[j]) FAILM("get", "%s: get(key %ld) returned value %ld, the value most recently set is %ld", when, key, ((vobj_t)got)->key, m->val[j]);
        }
        SPIF_OBJ_DEL(probe);
    }
}


/* "sparse" plans: the full read-back after every operation re-seeds whatever an implementation remembers between calls (a cursor, a
   "last hit", a cached tail) before the next operation can meet it stale.  In a sparse plan two operations out of three are followed by
   ONE query only, at a position or key derived from the operation's number -- so "query, mutate, query" happens with nothing in between. */
static int sparse_plan;
static int sparse_now(void) { return sparse_plan && R.cur_op_index % 3 != 0 && R.cur_op_index + 1 < R.plan->nops; }
static void list_bare_query(int slot, const char *when)
{
    spif_list_t l = C[slot];
    model_t *m = &M[slot];
    long r, k, v;
    int pos;
    if (!l || !m->len) return;
    pos = (int)(((long)R.cur_op_index * 7 + slot * 3 + 1) % m->len);
    if ((R.cur_op_index / 3) % 2) pos = pos - m->len;                      /* counted from the end, half of the time */
    { spif_obj_t e = SPIF_LIST_GET(l, (spif_listidx_t)pos); int j = pos < 0 ? pos + m->len : pos;
      elem_ident(e, 0, &r, &k, &v, when);
      if (r != m->root[j]) FAILM("get", "%s: a single get(%d) right after the operation returned element #%ld, ideal sequence has #%ld there", when, pos, r, m->root[j]); }
    probe_hit("bare_query_between_operations");
}
static void vector_bare_query(int slot, const char *when)
{
    spif_vector_t vv = C[slot];
    model_t *m = &M[slot];
    long key = ((long)R.cur_op_index * 5 + slot) % 9 - 1;
    vobj_t probe;
    spif_obj_t got;
    int j;
    if (!vv) return;
    probe = VNEW(key); j = m_find_key(m, key);
    got = SPIF_VECTOR_FIND(vv, probe);
    if ((got != NULL) != (j >= 0)) FAILM("find", "%s: a single find(%ld) right after the operation returned %s, ideal multiset says %s", when, key, got ? "an element" : "NULL", j >= 0 ? "present" : "absent");
    if (got == SPIF_OBJ(probe)) FAILM("find", "%s: find(%ld) returned the probe object, not a stored element", when, key);
    if (got) { long r, k, v; elem_ident(got, 0, &r, &k, &v, when); if (k != key) FAILM("find", "%s: find(%ld) returned an element with key %ld", when, key, k); }
    SPIF_OBJ_DEL(probe);
    probe_hit("bare_query_between_operations");
}
static void map_bare_query(int slot, const char *when)
{
    spif_map_t mp = C[slot];
    model_t *m = &M[slot];
    long key = ((long)R.cur_op_index * 5 + slot) % 9 - 1;
    vobj_t probe;
    spif_obj_t got;
    int j;
    if (!mp) return;
    probe = VNEW(key); j = m_find_key(m, key);
    got = SPIF_MAP_GET(mp, probe);
    if ((got != NULL) != (j >= 0)) FAILM("get", "%s: a single get(key %ld) right after the operation returned %s, ideal dictionary says %s", when, key, got ? "a value" : "NULL", j >= 0 ? "present" : "absent");
    if (got) {
        if (!vobj_valid(got)) FAILI("dangling-element", "%s: get(key %ld) returned a value that is not a live element", when, key);
        if (((vobj_t)got)->key != m->val[j]) FAILM("get", "%s: get(key %ld) returned value %ld, the value most recently set is %ld", when, key, ((vobj_t)got)->key, m->val[j]);
    }
    SPIF_OBJ_DEL(probe);
    probe_hit("bare_query_between_operations");
}

static void map_pass(const plan_t *p)
{
    long next_val = 100;
    map_keys = plan_get(p, "keys", 9);
    memset(C, 0, sizeof(C));
    for (int i = 0; i < NSLOT; i++) M[i].len = 0;
    vobj_reset();
    for (int i = 0; i < p->nops; i++) {
        op_t *o = (op_t *)&p->ops[i];
        const char *k = o->kind;
        int s = (int)o->a[0];
        spif_map_t mp;
        model_t *m;
        R.cur_op = o; R.cur_op_index = i; R.op_steps = 0;
        if (s < 0 || s >= NSLOT) sim_skip("bad-slot");
        paint_stack((int)plan_get(p, "stack.paint", 0xA5), 1536);   /* leftover stack contents are an input too */
        mp = C[s]; m = &M[s];
        sa_set_tag(i + 1);
        if (!strcmp(k, "new")) {
            if (mp) continue;
            C[s] = new_container(1); m->len = 0;
        } else if (!mp) continue;
        else if (!strcmp(k, "set") || !strcmp(k, "set_pair")) {
            long key = o->a[1], val = next_val++;
            vobj_t kk = VNEW(key), vv = VNEW(val);
            long kser = kk->serial, vser = vv->serial;
            int j = m_find_key(m, key), at;
            spif_bool_t b;
            long mn = 1000000, mx = -1000000;
            if (m->len >= MAXLEN - 2) { SPIF_OBJ_DEL(kk); SPIF_OBJ_DEL(vv); continue; }
            for (int q = 0; q < m->len; q++) { if (m->key[q] < mn) mn = m->key[q]; if (m->key[q] > mx) mx = m->key[q]; }
            int own = (o->a[2] == 2 && j >= 0 && k[3] == 0);
            if (own) {
                /* m[k] = m[k]: the value handed in is the map's own object for that key (get() returns it, not a copy) */
                b = SPIF_MAP_SET(mp, kk, SPIF_MAP_GET(mp, kk));
                probe_hit("set_own_value");
            } else if (o->a[2] == 3 && k[3] == 0) {
                /* m[k] = k: one and the same object handed in as key and as value -- the map still keeps a copy of each */
                b = SPIF_MAP_SET(mp, kk, kk);
                val = key;
                probe_hit("set_key_as_its_own_value");
            } else if (o->a[2] == 4 && j >= 0 && k[3] == 0) {
                /* m[stored key] = v: the key handed in is the map's own key object (a client walking the map and updating entries) */
                spif_obj_t ownkey = NULL;
                spif_iterator_t it = SPIF_MAP_ITERATOR(mp);
                for (int q = 0; q <= j && SPIF_ITERATOR_HAS_NEXT(it); q++) { spif_obj_t pr = SPIF_ITERATOR_NEXT(it); if (q == j && pr && sa_readable(pr, sizeof(struct spif_objpair_t_struct))) ownkey = SPIF_OBJPAIR(pr)->key; }
                SPIF_ITERATOR_DEL(it);
                b = SPIF_MAP_SET(mp, ownkey ? ownkey : SPIF_OBJ(kk), vv);
                if (ownkey) probe_hit("set_with_own_key");
            } else if (k[3] == 0) b = SPIF_MAP_SET(mp, kk, vv);
            else {
                spif_objpair_t pr = spif_objpair_new_from_both(SPIF_OBJ(kk), SPIF_OBJ(vv));
                b = SPIF_MAP_SET(mp, pr, (spif_obj_t)NULL);
                spif_objpair_del(pr);
                probe_hit("set_via_pair");
            }
            if ((b ? 1 : 0) != (j >= 0)) FAILM("set-return", "set(key %ld) returned %d but the key was %s", key, (int)b, j >= 0 ? "already present (must report replacement)" : "new");
            if (j >= 0) { if (!own) m->val[j] = val; probe_hit("overwrite_existing"); }
            else { for (at = 0; at < m->len && m->key[at] < key; at++); m_ins(m, at, kk->root, key, val); }
            /* ownership: the map must hold its own copies -- the caller's objects must still be the caller's */
            if (!vobj_is_live_serial(kser) || !vobj_is_live_serial(vser)) FAILI("caller-object-freed", "set() deleted the caller's key or value object");
            if (o->a[2] == 1) { kk->key = 7777; vv->key = 8888; probe_hit("caller_key_mutated_after_set"); }
            SPIF_OBJ_DEL(kk); SPIF_OBJ_DEL(vv);
        } else if (!strcmp(k, "remove")) {
            vobj_t probe = VNEW(o->a[1]);
            int j = m_find_key(m, o->a[1]);
            spif_obj_t got, ownkey = NULL;
            if (o->na > 2 && o->a[2] == 1 && j >= 0) {
                /* the key handed in is the map's own key object (taken from an iterated pair), not a fresh one */
                spif_iterator_t it = SPIF_MAP_ITERATOR(mp);
                for (int q = 0; q <= j && SPIF_ITERATOR_HAS_NEXT(it); q++) { spif_obj_t pr = SPIF_ITERATOR_NEXT(it); if (q == j && pr && sa_readable(pr, sizeof(struct spif_objpair_t_struct))) ownkey = SPIF_OBJPAIR(pr)->key; }
                SPIF_ITERATOR_DEL(it);
                if (ownkey) probe_hit("probe_is_own_element");
            }
            got = SPIF_MAP_REMOVE(mp, ownkey ? ownkey : SPIF_OBJ(probe));
            SPIF_OBJ_DEL(probe);
            if ((got != NULL) != (j >= 0)) FAILM("remove", "remove(key %ld) returned %s, ideal dictionary says the key is %s", o->a[1], got ? "a pair" : "NULL", j >= 0 ? "present" : "absent");
            if (got) {
                long r, kk2, v2;
                elem_ident(got, 1, &r, &kk2, &v2, k);
                if (kk2 != m->key[j] || v2 != m->val[j]) FAILM("remove", "remove(key %ld) handed back %ld -> %ld, ideal dictionary had %ld -> %ld", o->a[1], kk2, v2, m->key[j], m->val[j]);
                if (m->len == 1) probe_hit("remove_only");
                else if (j == 0) probe_hit("remove_min");
                else if (j == m->len - 1) probe_hit("remove_max");
                m_del(m, j);
                SPIF_OBJ_DEL(got);          /* the caller owns the removed pair: deleting it must be legal exactly once */
            }
        } else if (!strcmp(k, "has_value")) {
            long val = o->a[1] >= 0 && o->a[1] < m->len ? m->val[o->a[1]] : 5;   /* an existing value (by position) or an absent one */
            vobj_t probe = VNEW(val);
            int present = 0;
            spif_bool_t got = SPIF_MAP_HAS_VALUE(mp, probe);
            for (int q = 0; q < m->len; q++) if (m->val[q] == val) present = 1;
            SPIF_OBJ_DEL(probe);
            if ((got ? 1 : 0) != present) FAILM("has_value", "has_value(%ld) returned %d, ideal dictionary says %d", val, (int)got, present);
        } else if (!strcmp(k, "iter_dup")) {
            iter_dup_check(SPIF_MAP_ITERATOR(mp), m->len, o->a[1], i, k);
        } else if (!strcmp(k, "iter_beyond") || !strcmp(k, "iter_partial")) {
            spif_iterator_t a = SPIF_MAP_ITERATOR(mp), b = SPIF_MAP_ITERATOR(mp);
            int adv = k[5] == 'p' ? (m->len ? (int)(o->a[1] % (m->len + 1)) : 0) : m->len, cnt = 0;
            for (int q = 0; q < adv; q++) SPIF_ITERATOR_NEXT(a);
            if (k[5] == 'b') for (int q = 0; q < (int)(o->a[1] % 3) + 1; q++) {
                if (SPIF_ITERATOR_HAS_NEXT(a)) FAILM("iterator", "has_next is true beyond the end");
                (void)SPIF_ITERATOR_NEXT(a);
            }
            SPIF_ITERATOR_DEL(a);
            while (SPIF_ITERATOR_HAS_NEXT(b) && cnt <= m->len) { SPIF_ITERATOR_NEXT(b); cnt++; }
            if (cnt != m->len) FAILM("iterator", "a second iterator yields %d pairs after the first was deleted midway, the map has %d", cnt, m->len);
            SPIF_ITERATOR_DEL(b);
            probe_hit(k[5] == 'b' ? "iterator_one_past_end" : "iterator_abandoned_midway");
        } else if (!strcmp(k, "keys") || !strcmp(k, "values") || !strcmp(k, "pairs")) {
            int what = k[0] == 'k' ? 0 : k[0] == 'v' ? 1 : 2, into = (int)o->a[1];
            spif_list_t given = NULL, got;
            int gsize = 0;
            if (into) {
                /* a list to add to: of any of the three classes, with 0, 1 or 2 entries of its own (into == 1: an array with one) */
                int gcls = (into - 1) % 3;
                gsize = ((into - 1) / 3 + 1) % 3;
                given = gcls == 0 ? SPIF_LIST_NEW(array) : gcls == 1 ? SPIF_LIST_NEW(linked_list) : SPIF_LIST_NEW(dlinked_list);
                for (int q = 0; q < gsize; q++) SPIF_LIST_APPEND(given, VNEW(-5 - q));
                probe_hit("get_list_into_existing");
                if (gcls) probe_hit("get_list_into_linked_list");
                if (!gsize) probe_hit("get_list_into_empty_list");
            }
            got = what == 0 ? SPIF_MAP_GET_KEYS(mp, given) : what == 1 ? SPIF_MAP_GET_VALUES(mp, given) : SPIF_MAP_GET_PAIRS(mp, given);
            /* (whether the list handed in is the one that comes back is not said: the entries must be there, in ascending key order,
               behind whatever the returned list held before) */
            if (!got) FAILM("get_list", "%s returned NULL", k);
            if ((int)SPIF_LIST_COUNT(got) < m->len + (got == given ? gsize : 0)) FAILM("get_list", "%s: returned list has %d entries, the dictionary alone has %d", k, (int)SPIF_LIST_COUNT(got), m->len);
            check_list_of(got, m, what, (int)SPIF_LIST_COUNT(got) - m->len, k);
            if (given && got != given) SPIF_LIST_DEL(given);
            SPIF_LIST_DEL(got);
        } else if (!strcmp(k, "dup")) {
            int d = (int)o->a[1];
            if (d < 0 || d >= NSLOT || C[d]) continue;
            if (!m->len) probe_hit("dup_of_empty_container");
            C[d] = SPIF_OBJ_DUP(mp);
            if (!C[d] || C[d] == mp) FAILM("dup", "dup returned %s", C[d] ? "the same object" : "NULL");
            M[d] = *m;
        } else if (!strcmp(k, "del")) {
            SPIF_MAP_DEL(mp);
            C[s] = NULL; m->len = 0;
        } else continue;
        tr_printf("%s[%s] slot%d -> len=%d", k, cls_name[cur_cls], s, M[s].len);
        for (int q = 0; q < NSLOT; q++) { if (sparse_now()) map_bare_query(q, k); else map_readback(q, k); }
        tr_u64("alloc", sa_live_digest());
    }
    R.cur_op = NULL;
    for (int q = 0; q < NSLOT; q++) if (C[q]) { SPIF_MAP_DEL(C[q]); C[q] = NULL; }
}

/* ------------------------------------------------------------------ exec / gen */
static void exec_kind(const plan_t *p, void (*pass)(const plan_t *))
{
    long mask = plan_get(p, "classes", 7);
    mixed_classes = (int)plan_get(p, "mixedclass", 0);
    sparse_plan = (int)plan_get(p, "sparse", 0);
    if (mixed_classes) probe_hit("elements_of_two_comparable_classes");
    iterdup_first_cls = -1;
    for (cur_cls = 0; cur_cls < NCLS; cur_cls++) {
        if (!(mask & (1 << cur_cls))) continue;
        if (iterdup_first_cls < 0) { iterdup_first_cls = cur_cls; memset(iterdup_obs, -1, sizeof(iterdup_obs)); }
        vnew_count = 0;
        pass(p);
    }
}
static void exec_list(const plan_t *p) { exec_kind(p, list_pass); }
static void exec_map(const plan_t *p) { exec_kind(p, map_pass); }
static void exec_vector(const plan_t *p) { exec_kind(p, vector_pass); }

static void gen_alloc_knobs(plan_t *p, rng_t *r)
{
    plan_knob(p, "alloc.fill", rng_range(r, 0, 4));
    plan_knob(p, "alloc.zero", rng_chance(r, 1, 4)); plan_knob(p, "alloc.realloc0", rng_chance(r, 1, 4));      /* the two readings ISO C allows for a request of no bytes */
    plan_knob(p, "alloc.realloc", rng_chance(r, 1, 2) ? REALLOC_MOVE : rng_range(r, 1, 2));
    plan_knob(p, "alloc.reuse", rng_range(r, 0, 2));
    { static const int paints[] = { 0x00, 0xA5, 0xFF, 0x5A }; plan_knob(p, "stack.paint", paints[rng_below(r, 4)]); }
    if (rng_chance(r, 1, 5)) plan_knob(p, "mixedclass", 1);
    if (rng_chance(r, 1, 3)) plan_knob(p, "sparse", 1);          /* most operations followed by a single query instead of the full read-back */
}
static long gen_idx(rng_t *r, int len)
{
    switch (rng_below(r, 11)) {
    case 0: return -len - 2; case 1: return -len - 1; case 2: return -len; case 3: return -1; case 4: return 0; case 5: return 1;
    case 6: return len / 2; case 7: return len - 1; case 8: return len; case 9: return len + 1 + (long)rng_below(r, 3);
    default: return len ? (long)rng_below(r, (uint32_t)len) : 0;
    }
}

static void gen_list(plan_t *p, rng_t *r)
{
    int nops = rng_range(r, 3, 40 * sim_tier_scale()), len[NSLOT] = { 0, 0 }, ex[NSLOT] = { 1, 0 }, cap = 24;
    gen_alloc_knobs(p, r);
    plan_op(p, 0, "new", 1, 0L);
    if (rng_chance(r, 1, 8)) {
        /* one plan in eight works on a long list: growth steps of the array, long walks of the linked ones */
        int pre = rng_range(r, 30, 100);
        for (int q = 0; q < pre; q++) plan_op(p, 0, rng_chance(r, 1, 4) ? "prepend" : "append", 2, 0L, (long)rng_below(r, 6));
        len[0] = pre; cap = 110;
    }
    if (rng_chance(r, 1, 80)) {
        /* one plan in eighty reaches the sizes where growth policies change (1024 slots, 2048): a single insert_at far beyond the end makes
           a list of that length out of placeholders; few operations follow, and sparsely checked, or the quadratic walks of the linked
           classes would take the time of a thousand ordinary plans */
        static const int edge[] = { 1023, 1024, 1025, 1030, 1100, 1536, 2047, 2048, 2049, 2100 };
        long idx = edge[rng_below(r, 10)];
        int pre = rng_range(r, 1, 3);
        for (int q = 0; q < pre; q++) plan_op(p, 0, "append", 2, 0L, (long)rng_below(r, 6));
        plan_op(p, 0, "insert_at", 3, 0L, (long)rng_below(r, 6), idx);
        len[0] = (int)idx + 1; cap = 2200; nops = rng_range(r, 1, 6);
        plan_knob(p, "sparse", 1);
        plan_knob(p, "big", 1);
    }
    for (int i = 0; i < nops; i++) {
        int s = ex[1] && rng_chance(r, 1, 2) ? 1 : 0, k = (int)rng_below(r, 100);
        long key = (long)rng_below(r, 6);
        if (!ex[s]) { plan_op(p, 0, "new", 1, (long)s); ex[s] = 1; len[s] = 0; continue; }
        if (len[s] > cap && k < 45) k = 50 + k % 20;
        if (k < 18) { if (len[s] && rng_chance(r, 1, 10)) plan_op(p, 0, "append_again", 3, (long)s, (long)rng_below(r, 1000), (long)rng_below(r, 2)); else plan_op(p, 0, "append", 2, (long)s, key); len[s]++; }      /* (one in ten: an object the list already holds) */
        else if (k < 28) { plan_op(p, 0, "prepend", 2, (long)s, key); len[s]++; }
        else if (k < 45) {
            if (rng_chance(r, 1, 2)) { long code = (long)rng_below(r, 16) * 100 + (long)rng_below(r, 100); plan_op(p, 0, "insert_at", 4, (long)s, key, code, 1L); len[s]++; }      /* position resolved when the op runs */
            else { long idx = gen_idx(r, len[s]); plan_op(p, 0, "insert_at", 3, (long)s, key, idx); { long j = idx < 0 ? idx + len[s] : idx; if (j >= 0) len[s] = (int)(j > len[s] ? j + 1 : len[s] + 1); } }
        }
        else if (k < 55) { if (rng_chance(r, 1, 5)) plan_op(p, 0, "remove", 3, (long)s, (long)rng_below(r, 1000), 1L); else plan_op(p, 0, "remove", 2, (long)s, key); if (len[s]) len[s]--; }
        else if (k < 66) { if (rng_chance(r, 1, 2)) plan_op(p, 0, "remove_at", 3, (long)s, (long)rng_below(r, 16) * 100 + (long)rng_below(r, 100), 1L); else plan_op(p, 0, "remove_at", 2, (long)s, gen_idx(r, len[s])); if (len[s]) len[s]--; }
        else if (k < 71) plan_op(p, 0, "index", 2, (long)s, key);
        else if (k < 76) plan_op(p, 0, "find", 2, (long)s, key);
        else if (k < 79) plan_op(p, 0, "contains", 2, (long)s, key);
        else if (k < 88) plan_op(p, 0, "reverse", 1, (long)s);
        else if (k < 90) plan_op(p, 0, "iter_beyond", 2, (long)s, (long)rng_below(r, 3));
        else if (k < 91) plan_op(p, 0, "iter_partial", 2, (long)s, (long)rng_below(r, 1000));
        else if (k < 92) plan_op(p, 0, "iter_dup", 2, (long)s, (long)rng_below(r, 1000));
        else if (k < 96) { if (!ex[1 - s]) { plan_op(p, 0, "dup", 2, (long)s, (long)(1 - s)); ex[1 - s] = 1; len[1 - s] = len[s]; } }
        else { plan_op(p, 0, "del", 1, (long)s); ex[s] = 0; len[s] = 0; }
    }
}
static void gen_vector(plan_t *p, rng_t *r)
{
    int nops = rng_range(r, 3, 40 * sim_tier_scale()), len[NSLOT] = { 0, 0 }, ex[NSLOT] = { 1, 0 }, cap = 24, krange = 8;
    gen_alloc_knobs(p, r);
    plan_op(p, 0, "new", 1, 0L);
    if (rng_chance(r, 1, 8)) {
        /* one plan in eight works on a big vector over a wide key range: bisection depth, growth steps, long walks */
        int pre = rng_range(r, 30, 100);
        krange = 48; plan_knob(p, "keys", krange);
        for (int q = 0; q < pre; q++) plan_op(p, 0, "insert", 2, 0L, (long)rng_below(r, (uint32_t)krange));
        len[0] = pre; cap = 110;
    }
    if (rng_chance(r, 1, 400)) {
        /* one plan in four hundred goes beyond a thousand elements (see gen_list; these cost a few hundred ordinary plans each) */
        static const int edge[] = { 1023, 1024, 1025, 1030, 1100, 1536, 2047, 2049 };
        int n = edge[rng_below(r, 8)];
        krange = 48; plan_knob(p, "keys", krange);
        plan_op(p, 0, "bulk", 4, 0L, (long)n, (long)rng_below(r, 50), (long)rng_below(r, 50));
        len[0] += n; cap = 2300; nops = rng_range(r, 1, 6);
        plan_knob(p, "sparse", 1);
    }
    for (int i = 0; i < nops; i++) {
        int s = ex[1] && rng_chance(r, 1, 2) ? 1 : 0, k = (int)rng_below(r, 100);
        long key = (long)rng_below(r, (uint32_t)krange), edge = rng_chance(r, 1, 6) ? -1L : rng_chance(r, 1, 6) ? (long)krange + 1 : key;
        if (!ex[s]) { plan_op(p, 0, "new", 1, (long)s); ex[s] = 1; len[s] = 0; continue; }
        if (len[s] > cap && k < 45) k = 50 + k % 20;
        if (k < 45) { if (len[s] && rng_chance(r, 1, 12)) plan_op(p, 0, "insert_again", 2, (long)s, (long)rng_below(r, 1000)); else plan_op(p, 0, "insert", 2, (long)s, key); len[s]++; }      /* (one insertion in twelve hands in an object the vector already holds) */
        else if (k < 62) { if (rng_chance(r, 1, 5)) plan_op(p, 0, "remove", 3, (long)s, key, 1L); else plan_op(p, 0, "remove", 2, (long)s, edge); if (len[s]) len[s]--; }
        else if (k < 76) plan_op(p, 0, "find", 2, (long)s, edge);
        else if (k < 80) plan_op(p, 0, rng_chance(r, 1, 4) ? "iter_dup" : rng_chance(r, 1, 2) ? "iter_beyond" : "iter_partial", 2, (long)s, (long)rng_below(r, 1000));
        else if (k < 90) plan_op(p, 0, "contains", 2, (long)s, edge);
        else if (k < 96) { if (!ex[1 - s]) { plan_op(p, 0, "dup", 2, (long)s, (long)(1 - s)); ex[1 - s] = 1; len[1 - s] = len[s]; } }
        else if (k < 97) plan_op(p, 0, "addrvec", 3, (long)s, (long)rng_range(r, 2, 6), (long)rng_below(r, 720));
        else { plan_op(p, 0, "del", 1, (long)s); ex[s] = 0; len[s] = 0; }
    }
}
static void gen_map(plan_t *p, rng_t *r)
{
    int nops = rng_range(r, 3, 40 * sim_tier_scale()), ex[NSLOT] = { 1, 0 }, krange = rng_chance(r, 1, 3) ? 3 : rng_chance(r, 1, 5) ? 48 : 9;
    gen_alloc_knobs(p, r);
    plan_knob(p, "keys", krange);
    plan_op(p, 0, "new", 1, 0L);
    if (krange == 48) { int pre = rng_range(r, 20, 60); for (int q = 0; q < pre; q++) plan_op(p, 0, "set", 3, 0L, (long)rng_below(r, 48), 0L); }     /* a large key set */
    if (rng_chance(r, 1, 500)) {
        /* one plan in five hundred (each costs a few hundred ordinary ones): a dictionary of 250..300 entries -- around the 256 where block-wise growth and narrow counters show --
           and then the listings, which build their result lists by appending that many times */
        int pre = rng_range(r, 250, 300), step = 1 + 2 * (int)rng_below(r, 5);
        krange = 400; plan_knob(p, "keys", krange); plan_knob(p, "sparse", 1);
        for (int q = 0; q < pre; q++) plan_op(p, 0, "set", 3, 0L, (long)((q * step * 7 + 3) % 400), 0L);
        plan_op(p, 0, "keys", 2, 0L, 0L); plan_op(p, 0, "values", 2, 0L, rng_chance(r, 1, 2) ? 2L : 0L); plan_op(p, 0, "pairs", 2, 0L, 0L);
        nops = rng_range(r, 1, 8);
    }
    for (int i = 0; i < nops; i++) {
        int s = ex[1] && rng_chance(r, 1, 2) ? 1 : 0, k = (int)rng_below(r, 100);
        long key = (long)rng_below(r, (uint32_t)krange);
        if (!ex[s]) { plan_op(p, 0, "new", 1, (long)s); ex[s] = 1; continue; }
        if (k < 40) { int pair = rng_chance(r, 1, 6); plan_op(p, 0, pair ? "set_pair" : "set", 3, (long)s, key, !pair && rng_chance(r, 1, 8) ? 2L : !pair && rng_chance(r, 1, 10) ? 3L : !pair && rng_chance(r, 1, 8) ? 4L : (long)rng_chance(r, 1, 2)); }
        else if (k < 62) { if (rng_chance(r, 1, 5)) plan_op(p, 0, "remove", 3, (long)s, key, 1L); else plan_op(p, 0, "remove", 2, (long)s, key); }
        else if (k < 68) plan_op(p, 0, "has_value", 2, (long)s, (long)rng_range(r, -1, 6));
        else if (k < 70) plan_op(p, 0, rng_chance(r, 1, 4) ? "iter_dup" : rng_chance(r, 1, 2) ? "iter_beyond" : "iter_partial", 2, (long)s, (long)rng_below(r, 1000));
        else if (k < 76) plan_op(p, 0, "keys", 2, (long)s, rng_chance(r, 1, 2) ? (long)rng_range(r, 1, 9) : 0L);
        else if (k < 82) plan_op(p, 0, "values", 2, (long)s, rng_chance(r, 1, 2) ? (long)rng_range(r, 1, 9) : 0L);
        else if (k < 88) plan_op(p, 0, "pairs", 2, (long)s, rng_chance(r, 1, 2) ? (long)rng_range(r, 1, 9) : 0L);
        else if (k < 95) { if (!ex[1 - s]) { plan_op(p, 0, "dup", 2, (long)s, (long)(1 - s)); ex[1 - s] = 1; } }
        else { plan_op(p, 0, "del", 1, (long)s); ex[s] = 0; }
    }
}

const engine_t listsim_engine = { "objsim-list", "C02", gen_list, exec_list };
const engine_t mapsim_engine = { "objsim-map", "C03", gen_map, exec_map };
const engine_t vectorsim_engine = { "objsim-vector", "C04", gen_vector, exec_vector };
