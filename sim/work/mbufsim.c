/* objsim/mbuff: C07 -- mbuff objects are faithful byte-sequence values under any history.
 * Real mbuff.c over the simulated allocator, seekable/streaming FILE* streams and descriptors. */
#define _GNU_SOURCE
#include "sim.h"
#include "simfd.h"
#include "simtask.h"
#include "libast_h.h"
#include <string.h>
#include <stdlib.h>
#include <ctype.h>

#define NSLOT 4
typedef struct { unsigned char *b; size_t len, cap; } mb_t;
/* positions and counts can be given symbolically (flag argument == 1) and are then resolved against the length the object has
   when the operation runs: the generator's own idea of that length drifts after trims, splices and failed reads */
static long long sym_pos(long code, long long L)
{
    switch (code % 12) {
    case 0: return -L - 2; case 1: return -L - 1; case 2: return -L; case 3: return -1; case 4: return 0; case 5: return 1;
    case 6: return L / 2; case 7: return L - 1; case 8: return L; case 9: return L + 1; case 10: return L ? (code / 12) % L : 0; default: return 2000000000LL;
    }
}
static long long sym_cnt(long code, long long L, long long idx)
{
    long long at = idx < 0 ? idx + L : idx, rest = L - at;
    switch (code % 10) {
    case 0: return 0; case 1: return 1; case 2: return rest; case 3: return rest + 1; case 4: return rest - 1; case 5: return -1;
    case 6: return -rest; case 7: return (code / 10) % 5; case 8: return rest > 0 ? (code / 10) % (rest + 1) : 0; default: return 2000000000LL;
    }
}

static spif_mbuff_t objs[NSLOT];
static mb_t mod[NSLOT];

static void m_reserve(mb_t *m, size_t n) { if (n + 1 > m->cap) { m->cap = (n + 1) * 2 + 16; m->b = realloc(m->b, m->cap); } }
static void m_set(mb_t *m, const void *p, size_t n) { m_reserve(m, n); if (n) memmove(m->b, p, n); m->len = n; }
static void m_insert(mb_t *m, size_t at, const unsigned char *p, size_t n)
{
    unsigned char *tmp;
    if (!n) return;
    tmp = malloc(n); memcpy(tmp, p, n);
    m_reserve(m, m->len + n);
    memmove(m->b + at + n, m->b + at, m->len - at);
    memcpy(m->b + at, tmp, n);
    m->len += n;
    free(tmp);
}
static void m_delete(mb_t *m, size_t at, size_t n) { memmove(m->b + at, m->b + at + n, m->len - at - n); m->len -= n; }
static int lexcmp(const unsigned char *a, size_t la, const unsigned char *b, size_t lb)
{
    size_t k = la < lb ? la : lb;
    int c = k ? memcmp(a, b, k) : 0;
    if (c) return c < 0 ? -1 : 1;
    return la < lb ? -1 : la > lb ? 1 : 0;
}
static spif_cmp_t to_cmp(int c) { return c < 0 ? SPIF_CMP_LESS : c > 0 ? SPIF_CMP_GREATER : SPIF_CMP_EQUAL; }

/* dispatch through the object's class table (the SPIF_MBUFF_* method macros in mbuff.h do not compile) */
#define VIA(meth) ((spif_mbuffclass_t) SPIF_OBJ_CLASS(self))->meth

static void check_obj(int slot, const char *when)
{
    spif_mbuff_t o = objs[slot];
    mb_t *m = &mod[slot];
    void *base; size_t bsz; int live;
    long long len, size;
    if (!o) return;
    if (!sa_readable(o, sizeof(*o))) sim_fail("INVARIANT(object-block)", "%s: slot %d object is not a live block", when, slot);
    len = (long long)spif_mbuff_get_len(o);
    size = (long long)spif_mbuff_get_size(o);
    if (len != (long long)o->len || size != (long long)o->size) sim_fail("MISMATCH(get_len/size)", "%s: accessors disagree with fields", when);
    if (len < 0 || (size_t)len != m->len) sim_fail("MISMATCH(len)", "%s: slot %d reports length %lld, ideal sequence has %zu", when, slot, len, m->len);
    if (size < len) sim_fail("INVARIANT(size>=len)", "%s: slot %d capacity %lld is below length %lld", when, slot, size, len);
    if (!o->buff) {
        if (len != 0 || size != 0) sim_fail("INVARIANT(empty-state)", "%s: slot %d has no buffer but len=%lld size=%lld", when, slot, len, size);
        return;
    }
    if (!sa_lookup(o->buff, &base, &bsz, &live, NULL) || !live)
        sim_fail("INVARIANT(buffer-block)", "%s: slot %d buffer pointer does not point into a live block", when, slot);
    bsz -= (size_t)((const unsigned char *)o->buff - (const unsigned char *)base);      /* what the block holds from the buffer pointer on */
    if ((long long)bsz < size) sim_fail("INVARIANT(block>=size)", "%s: slot %d reports capacity %lld but its block has %zu bytes", when, slot, size, bsz);
    if (len && memcmp(o->buff, m->b, (size_t)len)) {
        size_t i = 0;
        while (i < (size_t)len && o->buff[i] == m->b[i]) i++;
        sim_fail("MISMATCH(bytes)", "%s: slot %d differs from the ideal sequence at position %zu (got 0x%02x want 0x%02x, len %lld)", when, slot, i, o->buff[i], m->b[i], len);
    }
}
static void check_all(const char *when) { for (int i = 0; i < NSLOT; i++) check_obj(i, when); }

static void exec(const plan_t *p)
{
    int viaclass = (int)plan_get(p, "viaclass", 0);
    memset(objs, 0, sizeof(objs));
    for (int i = 0; i < NSLOT; i++) m_set(&mod[i], "", 0);
    for (int i = 0; i < p->nops; i++) {
        op_t *o = (op_t *)&p->ops[i];
        const char *k = o->kind;
        int s = (int)o->a[0];
        spif_mbuff_t self;
        mb_t *m;
        unsigned char *arg = NULL;                   /* exact-size simulated block holding o->s */
        size_t alen;
        R.cur_op = o; R.cur_op_index = i; R.op_steps = 0;
        if (s < 0 || s >= NSLOT) sim_skip("bad-slot");
        self = objs[s];
        m = &mod[s];
        simfd_hard_error = 0; simfd_eagain = 0;
        if (o->has_s) { arg = sim_malloc(o->slen); if (o->slen) memcpy(arg, o->s, o->slen); }
        alen = o->slen;
        if (self && o->na > 1 && o->a[1] > 0 && (!strcmp(k, "cmp_ptr") || !strcmp(k, "ncmp_ptr") || !strcmp(k, "find_ptr"))) {
            /* bytes related to the object's own: 1 equal, 2 a proper beginning, 3 one byte longer, 4 last byte changed, 6 a piece from inside, 7 first byte changed */
            long code = o->a[1] % 8, salt = o->a[1] / 8;
            size_t L = m->len, n = L, from = 0;
            if (code == 2) n = L ? (size_t)salt % L : 0;
            else if (code == 3) n = L + 1;
            else if (code == 6 && L) { from = (size_t)salt % L; n = 1 + (size_t)(salt / 7) % 6; if (from + n > L) n = L - from; }
            if (arg) sim_free(arg);
            arg = sim_malloc(n);
            if (code == 3) { if (L) memcpy(arg, m->b, L); arg[L] = (unsigned char)salt; }
            else if (n) memcpy(arg, m->b + from, n);
            if (code == 4 && n) arg[n - 1] ^= 1;
            if (code == 7 && n) arg[0] ^= 1;
            alen = n;
            probe_hit("argument_related_to_object");
        }
        if (!o->has_s && o->na > 2 && o->a[2] > 0 && (!strcmp(k, "append_ptr") || !strcmp(k, "prepend_ptr") || !strcmp(k, "splice_ptr") || !strcmp(k, "cmp_ptr") || !strcmp(k, "find_ptr")))
            { alen = (size_t)o->a[2] % 6000; probe_hit("null_pointer_with_a_length"); }          /* no bytes, but a length all the same */
        sa_set_tag(i + 1);

        if (!strncmp(k, "new", 3) || !strncmp(k, "init", 4)) {
            int isnew = k[0] == 'n';
            const char *what = isnew ? k + 3 : k + 4;
            spif_bool_t ok = TRUE;
            int may_fail = 0;
            spif_mbuff_t made = self;
            if (isnew) { if (self) goto skip; }
            else { if (!self || self->len || self->size || m->len) goto skip; }
            if (!*what) {
                if (isnew) made = spif_mbuff_new(); else ok = spif_mbuff_init(self);
                m_set(m, "", 0);
            } else if (!strcmp(what, "_ptr")) {
                if (isnew) made = viaclass ? (spif_mbuff_t)(SPIF_MBUFFCLASS_VAR(mbuff)->new_from_ptr)(arg, (spif_memidx_t)o->slen) : spif_mbuff_new_from_ptr(arg, (spif_memidx_t)o->slen); else ok = viaclass ? (spif_bool_t)(long)(SPIF_MBUFFCLASS_VAR(mbuff)->init_from_ptr)(self, arg, (spif_memidx_t)o->slen) : spif_mbuff_init_from_ptr(self, arg, (spif_memidx_t)o->slen);
                m_set(m, o->s, arg ? o->slen : 0);
            } else if (!strcmp(what, "_buff")) {
                long long l = o->a[1], sz = o->a[2];
                if (l < 0 || sz < 0 || (size_t)l > o->slen) goto skip;
                if (isnew) made = viaclass ? (spif_mbuff_t)(SPIF_MBUFFCLASS_VAR(mbuff)->new_from_buff)(arg, l, sz) : spif_mbuff_new_from_buff(arg, l, sz); else ok = viaclass ? (spif_bool_t)(long)(SPIF_MBUFFCLASS_VAR(mbuff)->init_from_buff)(self, arg, l, sz) : spif_mbuff_init_from_buff(self, arg, l, sz);
                m_set(m, o->s, arg ? (size_t)l : 0);
                /* (the capacity it ends up with is the constructor's business: check_obj wants it not below the length and owned) */
            } else if (!strcmp(what, "_fp")) {
                int seekable = (int)o->a[1];
                size_t pos = (size_t)o->a[2];
                FILE *fp;
                int sfd = -1;
                if (pos > o->slen) pos = o->slen;
                if (seekable >= 2) {
                    /* a stdio stream over a descriptor (a pipe: 2, a regular file: 3), as fdopen() or popen() give one, of which the caller
                       has already read the first few bytes through stdio: stdio has read ahead, so the descriptor's own position is further
                       on than the stream's.  What the object must hold is what the *stream* still has to give. */
                    size_t pre = o->na > 3 && o->a[3] > 0 ? (size_t)o->a[3] : 0, got = 0;
                    sfd = simfd_new_src(0, o->s, o->slen, seekable == 3, 0, 0);
                    fp = simfd_fd_stream(sfd);
                    while (got < pre && fgetc(fp) != EOF) got++;
                    pos = got;
                    seekable = seekable == 3;
                    probe_hit(got ? "fp_over_descriptor_partly_read" : "fp_over_descriptor");
                } else {
                fp = simfd_cookie_stream(o->s, o->slen, seekable, seekable ? pos : 0);
                if (!seekable) pos = 0;
                }
                if (isnew) made = viaclass ? (spif_mbuff_t)(SPIF_MBUFFCLASS_VAR(mbuff)->new_from_fp)(fp) : spif_mbuff_new_from_fp(fp); else ok = viaclass ? (spif_bool_t)(long)(SPIF_MBUFFCLASS_VAR(mbuff)->init_from_fp)(self, fp) : spif_mbuff_init_from_fp(self, fp);
                fclose(fp);
                if (sfd >= 0) simfd_close_harness(0, sfd);
                m_set(m, o->s + pos, o->slen - pos);
                may_fail = (o->slen - pos == 0);      /* B.2: empty source: return value DC */
                probe_hit(seekable ? (pos ? "fp_seekable_nonzero_pos" : "fp_seekable") : "fp_streaming");
                if (!seekable && o->slen == 4096) probe_hit("stream_exactly_4096");
            } else if (!strcmp(what, "_fd")) {
                int seekable = (int)o->a[1];
                size_t pos = (size_t)o->a[2];
                int fd;
                size_t delivered;
                if (pos > o->slen) pos = o->slen;
                if (!seekable) pos = 0;
                /* a3 = 1: a non-blocking pipe or socket: a read may answer EAGAIN, and when everything queued has been read it does */
                int nonblock = !seekable && o->na > 3 && o->a[3] == 1;
                simfd_eagain = 0;
                fd = simfd_new_src(0, o->s, o->slen, seekable, nonblock, pos);
                if (nonblock) probe_hit("fd_nonblocking");
                if (isnew) made = viaclass ? (spif_mbuff_t)(SPIF_MBUFFCLASS_VAR(mbuff)->new_from_fd)(fd) : spif_mbuff_new_from_fd(fd); else ok = viaclass ? (spif_bool_t)(long)(SPIF_MBUFFCLASS_VAR(mbuff)->init_from_fd)(self, fd) : spif_mbuff_init_from_fd(self, fd);
                delivered = simfd_src_pos(0, fd) - pos;
                simfd_close_harness(0, fd);
                if (seekable) { m_set(m, o->s + pos, o->slen - pos); may_fail = (o->slen - pos == 0); probe_hit("fd_regular_file"); }
                else {
                    if (delivered != o->slen && !simfd_hard_error && !simfd_eagain) {
                        if (made && isnew) { objs[s] = made; }
                        sim_fail("MISMATCH(fd-not-drained)", "constructor stopped after %zu of %zu bytes although the descriptor reported neither EOF nor an error", delivered, o->slen);
                    }
                    m_set(m, o->s, delivered);
                    may_fail = delivered == 0;
                    probe_hit("fd_streaming");
                    if (o->slen > 4096) probe_hit("fd_multi_chunk");
                }
            } else goto skip;
            if (simfd_hard_error && (!strcmp(what, "_fp") || !strcmp(what, "_fd"))) {
                /* the source failed: the constructor may give up, or keep what it had read -- a beginning of the data, nothing else */
                spif_mbuff_t got = isnew ? made : (ok ? self : (spif_mbuff_t)NULL);
                may_fail = 1;
                probe_hit("source_read_error");
                if (got && got->len > 0) {
                    if ((size_t)got->len > m->len || !got->buff || !sa_readable(got->buff, (size_t)got->len) || memcmp(got->buff, m->b, (size_t)got->len))
                        sim_fail("MISMATCH(bytes)", "after a read error the object holds %lld bytes that are not a beginning of the data", (long long)got->len);
                    m->len = (size_t)got->len;
                } else if (got) m_set(m, "", 0);
            }
            if (isnew) {
                if (!made) {
                    if (!may_fail) sim_fail("MISMATCH(constructor)", "%s returned NULL", k);
                    m_set(m, "", 0);
                    probe_hit("constructor_refused_dc_case");
                    tr_printf("%s slot%d -> NULL", k, s);
                    goto done;
                }
                objs[s] = made;
            } else if (!ok) {
                if (!may_fail) sim_fail("MISMATCH(init)", "%s returned FALSE", k);
                /* failed re-init in a don't-care case: the object must still be internally consistent; adopt its length if empty */
                if (self->len == 0) m_set(m, "", 0);
            }
            if (may_fail && objs[s] && (size_t)objs[s]->len != m->len && objs[s]->len == 0) m_set(m, "", 0);
            tr_printf("%s slot%d len=%zu", k, s, m->len);
            check_obj(s, k);
            goto done;
        }
        if (!self) goto skip;

        if (!strcmp(k, "append") || !strcmp(k, "prepend")) {
            int os = (int)o->a[1];
            spif_mbuff_t other = (os >= 0 && os < NSLOT) ? objs[os] : NULL;
            spif_bool_t b;
            if (os == s) probe_hit("self_as_argument");
            if (!self->buff) probe_hit("append_on_empty");
            if (k[0] == 'a') b = viaclass ? (spif_bool_t)(long)VIA(append)(self, other) : spif_mbuff_append(self, other);
            else b = viaclass ? (spif_bool_t)(long)VIA(prepend)(self, other) : spif_mbuff_prepend(self, other);
            if (!other) { (void)b; probe_hit("null_argument"); }        /* nothing to add: the value stays (checked below); what is returned is not specified */
            else { if (!b) sim_fail("MISMATCH(return)", "%s returned FALSE", k); m_insert(m, k[0] == 'a' ? m->len : 0, mod[os].b, mod[os].len); }
        } else if (!strcmp(k, "append_ptr") || !strcmp(k, "prepend_ptr")) {
            spif_bool_t b;
            if (!self->buff) probe_hit("append_on_empty");
            if (k[0] == 'a') b = viaclass ? (spif_bool_t)(long)VIA(append_from_ptr)(self, arg, (spif_memidx_t)alen) : spif_mbuff_append_from_ptr(self, arg, (spif_memidx_t)alen);
            else b = viaclass ? (spif_bool_t)(long)VIA(prepend_from_ptr)(self, arg, (spif_memidx_t)alen) : spif_mbuff_prepend_from_ptr(self, arg, (spif_memidx_t)alen);
            if (!arg) { (void)b; probe_hit("null_argument"); }
            else { if (!b) sim_fail("MISMATCH(return)", "%s returned FALSE", k); m_insert(m, k[0] == 'a' ? m->len : 0, arg, o->slen); }
        } else if (!strcmp(k, "clear")) {
            if (!self->buff) probe_hit("mutator_on_empty_state");
            if (viaclass) VIA(clear)(self, (int)(o->a[1] & 255)); else spif_mbuff_clear(self, (spif_uint8_t)o->a[1]);
            memset(m->b, (int)(o->a[1] & 255), m->len);
        } else if (!strcmp(k, "reverse")) {
            if (!self->buff) probe_hit("mutator_on_empty_state");
            if (viaclass) VIA(reverse)(self); else spif_mbuff_reverse(self);
            for (size_t a = 0, z = m->len; a + 1 < z; a++, z--) { unsigned char t = m->b[a]; m->b[a] = m->b[z - 1]; m->b[z - 1] = t; }
        } else if (!strcmp(k, "trim")) {
            size_t a = 0, z = m->len;
            spif_bool_t b;
            if (!self->buff) probe_hit("mutator_on_empty_state");
            b = viaclass ? (spif_bool_t)(long)VIA(trim)(self) : spif_mbuff_trim(self);
            if (!b) sim_fail("MISMATCH(return)", "trim returned FALSE");
            while (a < z && isspace(m->b[a])) a++;
            while (z > a && isspace(m->b[z - 1])) z--;
            if (z == a && m->len) probe_hit("trim_all_whitespace");
            memmove(m->b, m->b + a, z - a);
            m->len = z - a;
        } else if (!strcmp(k, "splice") || !strcmp(k, "splice_ptr")) {
            long long L = (long long)m->len;
            int symb = o->na > 4 && o->a[4] == 1;
            long long idx = symb ? sym_pos(o->a[1], L) : o->a[1], cnt = symb ? sym_cnt(o->a[2], L, idx) : o->a[2];
            const unsigned char *ins = NULL; size_t il = 0;
            unsigned char *selfcopy = NULL;
            spif_bool_t b;
            int expect_ok;
            if (!strcmp(k, "splice")) {
                int os = (int)o->a[3];
                spif_mbuff_t other;
                other = (os >= 0 && os < NSLOT) ? objs[os] : NULL;
                if (other) { ins = mod[os].b; il = mod[os].len; }
                if (other && os == s) { selfcopy = malloc(il + 1); memcpy(selfcopy, ins, il); ins = selfcopy; probe_hit("self_as_argument"); }    /* spliced into itself */
                b = viaclass ? (spif_bool_t)(long)VIA(splice)(self, (spif_memidx_t)idx, (spif_memidx_t)cnt, other) : spif_mbuff_splice(self, idx, cnt, other);
            } else {
                if (arg) { ins = arg; il = o->slen; }
                b = viaclass ? (spif_bool_t)(long)VIA(splice_from_ptr)(self, (spif_memidx_t)idx, (spif_memidx_t)cnt, arg, (spif_memidx_t)alen) : spif_mbuff_splice_from_ptr(self, idx, cnt, arg, (spif_memidx_t)alen);
            }
            if (idx < 0) idx += L;
            expect_ok = idx >= 0 && idx < L;
            if (expect_ok && cnt < 0) {
                /* a negative count: how it is turned into a number of characters is not stated.  Two readings are accepted -- the one this
                   function has always used (idx + len + cnt) and the one substr uses (what follows idx, less -cnt) -- and the call's own
                   outcome says which was taken: refused only if some reading refuses, accepted only if some reading accepts, and then
                   the new length must be that reading's */
                long long cA = idx + L + cnt, cB = L - idx + cnt;
                int okA = cA >= 0 && cA <= L - idx, okB = cB >= 0 && cB <= L - idx;
                if (!b) { if (okA && okB) sim_fail("MISMATCH(return)", "%s with arguments in range under every reading (idx=%ld cnt=%ld len=%lld) returned FALSE", k, o->a[1], o->a[2], L); expect_ok = 0; b = 0; cnt = 0; }
                else if (okA && (long long)self->len == L - cA + (long long)il) cnt = cA;
                else if (okB && (long long)self->len == L - cB + (long long)il) cnt = cB;
                else if (!okA && !okB) { expect_ok = 0; cnt = 0; }
                else sim_fail("MISMATCH(len)", "%s(idx=%ld cnt=%ld) on %lld characters left %lld: neither reading of the negative count gives that", k, o->a[1], o->a[2], L, (long long)self->len);
                probe_hit("negative_count");
            }
            if (expect_ok) expect_ok = cnt >= 0 && cnt <= L - idx;
            if (!expect_ok) {
                probe_hit("refused_op");
                if (b) sim_fail("MISMATCH(refusal)", "%s with out-of-range position/count (idx=%ld cnt=%ld len=%lld) was accepted", k, o->a[1], o->a[2], L);
            } else {
                if (!b) sim_fail("MISMATCH(return)", "%s with in-range arguments (idx=%ld cnt=%ld len=%lld) returned FALSE", k, o->a[1], o->a[2], L);
                m_delete(m, (size_t)idx, (size_t)cnt);
                m_insert(m, (size_t)idx, ins, il);
            }
            free(selfcopy);
        } else if (!strcmp(k, "sprintf")) {
            static char out[20000], sa[16000];      /* (results of several kilobytes too) */
            int fid = (int)o->a[1], n;
            long iv = o->a[2];
            spif_bool_t b;
            int vfailed;
            size_t sl = o->slen < 15000 ? o->slen : 15000;
            memcpy(sa, o->s ? (const char *)o->s : "", sl); sa[sl] = 0;
            for (char *q = sa; *q; q++) if (*q == '%') *q = 'p';
            /* a3: which vsnprintf() call of this operation fails (0: none) -- the formatter may run out of memory half way */
            sim_vsnprintf_calls = 0; sim_vsnprintf_failed = 0; sim_vsnprintf_fail_at = o->na > 3 ? (int)o->a[3] : 0;
            switch (fid) {
            case 0: b = spif_mbuff_sprintf(self, (spif_charptr_t)"%s", sa); n = snprintf(out, sizeof(out), "%s", sa); break;
            case 1: b = spif_mbuff_sprintf(self, (spif_charptr_t)"%ld", iv); n = snprintf(out, sizeof(out), "%ld", iv); break;
            case 2: b = spif_mbuff_sprintf(self, (spif_charptr_t)"x%sy%ldz", sa, iv); n = snprintf(out, sizeof(out), "x%sy%ldz", sa, iv); break;
            case 3: b = spif_mbuff_sprintf(self, (spif_charptr_t)""); n = 0; out[0] = 0; break;
            default: b = spif_mbuff_sprintf(self, (spif_charptr_t)NULL); n = -1; out[0] = 0; break;
            }
            vfailed = sim_vsnprintf_failed; sim_vsnprintf_fail_at = 0;
            if (n < 0) {
                /* no format: refused.  Whether the old bytes are still there or already gone is not stated; one or the other */
                if (b) sim_fail("MISMATCH(return)", "sprintf(NULL format) returned TRUE");
                if ((size_t)self->len == m->len && (!m->len || (self->buff && sa_readable(self->buff, m->len) && !memcmp(self->buff, m->b, m->len)))) goto sprintf_done;
                n = 0;
            }
            else if (vfailed && !b) {
                /* the formatter failed and the call said so: the object is left with a value all the same -- what it held, or nothing */
                probe_hit("sprintf_refused_after_formatter_failure");
                if ((size_t)self->len == m->len && (!m->len || (self->buff && sa_readable(self->buff, m->len) && !memcmp(self->buff, m->b, m->len)))) goto sprintf_done;
                n = 0;
            }
            else if (n > 0 && !b) sim_fail("MISMATCH(return)", "sprintf returned FALSE for a non-empty result");
            m_set(m, out, (size_t)n);
            sprintf_done: ;
        } else if (!strcmp(k, "done")) {
            if (!spif_mbuff_done(self)) sim_fail("MISMATCH(return)", "done returned FALSE");
            m_set(m, "", 0);
            if (self->len) sim_fail("MISMATCH(done)", "object still reports %lld bytes after done()", (long long)self->len);   /* (whether it keeps a block is its own business and C06's) */
            probe_hit("done");
        } else if (!strcmp(k, "del")) {
            spif_mbuff_del(self);
            objs[s] = NULL; m_set(m, "", 0);
            tr_printf("del slot%d", s);
            goto done;
        } else if (!strcmp(k, "index") || !strcmp(k, "rindex")) {
            unsigned char c = (unsigned char)o->a[1];
            long long got, want = (long long)m->len;
            if (k[0] == 'i') { got = viaclass ? (long long)VIA(index)(self, (int)c) : spif_mbuff_index(self, c); for (size_t j = 0; j < m->len; j++) if (m->b[j] == c) { want = (long long)j; break; } }
            else { got = viaclass ? (long long)VIA(rindex)(self, (int)c) : spif_mbuff_rindex(self, c); for (size_t j = m->len; j > 0; j--) if (m->b[j - 1] == c) { want = (long long)j - 1; break; } }
            if (want == (long long)m->len) probe_hit("absent_byte_search");
            if (got != want) sim_fail("MISMATCH(query)", "%s(0x%02x) returned %lld, ideal sequence says %lld (len %zu)", k, c, got, want, m->len);
        } else if (!strcmp(k, "find") || !strcmp(k, "find_ptr")) {
            const unsigned char *nd = NULL; size_t nl = 0;
            long long got, want;
            if (!strcmp(k, "find")) {
                int os = (int)o->a[1];
                spif_mbuff_t other = (os >= 0 && os < NSLOT) ? objs[os] : NULL;
                if (other) { nd = mod[os].b; nl = mod[os].len; }
                got = viaclass ? (long long)VIA(find)(self, other) : spif_mbuff_find(self, other);
                if (!other) { (void)got; probe_hit("null_argument"); goto after; }          /* the answer for "no needle" is not specified */
            } else {
                if (arg) { nd = arg; nl = alen; }
                got = viaclass ? (long long)VIA(find_from_ptr)(self, arg, (spif_memidx_t)alen) : spif_mbuff_find_from_ptr(self, arg, (spif_memidx_t)alen);
                if (!arg) { (void)got; probe_hit("null_argument"); goto after; }
            }
            want = (long long)m->len;
            if (nl <= m->len) for (size_t j = 0; j + nl <= m->len; j++) if (!nl || !memcmp(m->b + j, nd, nl)) { want = (long long)j; break; }
            if (want == (long long)m->len) probe_hit("absent_byte_search");
            if (got != want) sim_fail("MISMATCH(query)", "%s returned %lld, ideal sequence says %lld (len %zu, needle %zu)", k, got, want, m->len, nl);
        } else if (!strcmp(k, "subbuff") || !strcmp(k, "subbuff_ptr")) {
            long long L = (long long)m->len;
            int symb = o->na > 3 && o->a[3] == 1;
            long long idx = symb ? sym_pos(o->a[1], L) : o->a[1], cnt = symb ? sym_cnt(o->a[2], L, idx) : o->a[2];
            int expect_ok;
            spif_mbuff_t sub = NULL; unsigned char *sp = NULL;
            if (k[7] == 0) sub = viaclass ? (spif_mbuff_t)VIA(subbuff)(self, (spif_memidx_t)idx, (spif_memidx_t)cnt) : spif_mbuff_subbuff(self, idx, cnt);
            else sp = viaclass ? (spif_byteptr_t)VIA(subbuff_to_ptr)(self, (spif_memidx_t)idx, (spif_memidx_t)cnt) : spif_mbuff_subbuff_to_ptr(self, idx, cnt);
            if (idx < 0) idx += L;
            expect_ok = idx >= 0 && idx < L;
            if (expect_ok) { if (cnt <= 0) cnt = L - idx + cnt; expect_ok = cnt >= 0; if (cnt > L - idx) cnt = L - idx; }
            if (!expect_ok) {
                probe_hit("refused_op");
                if (sub || sp) sim_fail("MISMATCH(refusal)", "%s with out-of-range arguments (idx=%ld cnt=%ld len=%lld) returned an object", k, o->a[1], o->a[2], L);
            } else if (sub) {
                if (!sa_readable(sub, sizeof(*sub))) sim_fail("INVARIANT(object-block)", "subbuff result is not a live block");
                if ((long long)sub->len != cnt || sub->size < sub->len || (cnt && (!sub->buff || !sa_readable(sub->buff, (size_t)cnt) || memcmp(sub->buff, m->b + idx, (size_t)cnt))))
                    sim_fail("MISMATCH(query)", "subbuff(%ld,%ld) of a %lld-byte buffer returned a wrong slice (len %lld want %lld)", o->a[1], o->a[2], L, (long long)sub->len, cnt);
                spif_mbuff_del(sub);
            } else if (sp) {
                if (!sa_readable(sp, (size_t)cnt) || memcmp(sp, m->b + idx, (size_t)cnt))
                    sim_fail("MISMATCH(query)", "subbuff_to_ptr(%ld,%ld) of a %lld-byte buffer returned a wrong slice", o->a[1], o->a[2], L);
                sim_free(sp);
            } else sim_fail("MISMATCH(query)", "%s with in-range arguments (idx=%ld cnt=%ld len=%lld) returned NULL", k, o->a[1], o->a[2], L);
        } else if (!strcmp(k, "cmp") || !strcmp(k, "ncmp")) {
            int os = (int)o->a[1];
            long long n = o->a[2];
            spif_mbuff_t other = (os >= 0 && os < NSLOT) ? objs[os] : NULL;
            spif_cmp_t got;
            if (k[0] == 'c') got = o->a[2] == 2 && other ? (viaclass ? SPIF_OBJ_COMP(self, other) : spif_mbuff_comp(self, other)) : viaclass ? (spif_cmp_t)(long)VIA(cmp)(self, other) : spif_mbuff_cmp(self, other);      /* (a2 == 2: the object-level comparison) */
            else { if (n < 0) goto skip; got = viaclass ? (spif_cmp_t)(long)VIA(ncmp)(self, other, (spif_memidx_t)n) : spif_mbuff_ncmp(self, other, n); }
            if (!other) { (void)got; probe_hit("null_argument"); }       /* comparing with "nothing": the answer is not specified */
            else if (k[0] == 'c') {
                int want = lexcmp(m->b, m->len, mod[os].b, mod[os].len);
                if (m->len != mod[os].len) probe_hit("cmp_different_lengths");
                if (got != to_cmp(want)) sim_fail("MISMATCH(query)", "cmp returned %d, ideal sequences (len %zu vs %zu) compare %d", (int)got, m->len, mod[os].len, want);
            } else {
                size_t mn = m->len < mod[os].len ? m->len : mod[os].len;
                if ((size_t)n <= mn) {
                    int c = n ? memcmp(m->b, mod[os].b, (size_t)n) : 0;
                    if (got != to_cmp(c)) sim_fail("MISMATCH(query)", "ncmp(%lld) returned %d, ideal prefixes compare %d", n, (int)got, c);
                } else {
                    /* a count beyond the shorter buffer: how the missing bytes count is don't-care (B.2) -- unless the bytes both have
                       already differ, which settles the order under every reading */
                    int c = mn ? memcmp(m->b, mod[os].b, mn) : 0;
                    if (c && got != to_cmp(c)) sim_fail("MISMATCH(query)", "ncmp(%lld) returned %d although the first %zu bytes already compare %d", n, (int)got, mn, c);
                }
            }
        } else if (!strcmp(k, "cmp_ptr") || !strcmp(k, "ncmp_ptr")) {
            spif_cmp_t got;
            if (k[0] == 'c') got = viaclass ? (spif_cmp_t)(long)VIA(cmp_with_ptr)(self, arg, (spif_memidx_t)alen) : spif_mbuff_cmp_with_ptr(self, arg, (spif_memidx_t)alen);
            else got = viaclass ? (spif_cmp_t)(long)VIA(ncmp_with_ptr)(self, arg, (spif_memidx_t)alen) : spif_mbuff_ncmp_with_ptr(self, arg, (spif_memidx_t)alen);
            if (!arg) { (void)got; probe_hit("null_argument"); }
            else {
                /* [T] the first len bytes of the object against the len bytes given; an object shorter than len is a proper prefix and sorts first */
                size_t n = alen < m->len ? alen : m->len;
                int want = lexcmp(m->b, n, arg, alen);
                if (m->len < alen) probe_hit("cmp_different_lengths");
                /* more bytes requested than the object holds: the pinned suite (sprintf test) compares into the spare capacity,
                   the ideal sequence says LESS -- value is don't-care there, memory safety is still demanded */
                if (alen == m->len && got != to_cmp(want)) sim_fail("MISMATCH(query)", "%s returned %d, ideal sequences (len %zu vs %zu given) compare %d", k, (int)got, m->len, alen, want);
                if (alen < m->len) {
                    /* fewer bytes given than the object holds.  ncmp: the first alen bytes decide.  cmp: if they already differ the order is
                       settled; if they are equal the object is the longer sequence -- GREATER as the ideal sequences compare, EQUAL as the
                       pinned "compare the bytes given" reading has it; both are accepted, LESS never */
                    if (k[0] == 'n' || want) { if (got != to_cmp(want)) sim_fail("MISMATCH(query)", "%s returned %d, the first %zu bytes compare %d", k, (int)got, alen, want); }
                    else if (got == SPIF_CMP_LESS) sim_fail("MISMATCH(query)", "%s returned LESS for an object that begins with the %zu bytes given and is longer", k, alen);
                }
                if (alen > m->len) {
                    /* more bytes given than the object holds: if the common part differs the order is settled; if not, the object is a
                       proper beginning of the bytes given -- where it has no spare capacity (nothing there to compare) it sorts first */
                    int c = m->len ? memcmp(m->b, arg, m->len) : 0;
                    if (c) { if (got != to_cmp(c)) sim_fail("MISMATCH(query)", "%s returned %d although the first %zu bytes already compare %d", k, (int)got, m->len, c); }
                    else if (k[0] == 'c' && objs[s] && (size_t)objs[s]->size == m->len && got != SPIF_CMP_LESS)      /* (with spare capacity the pinned code compares into it: don't-care) */
                        sim_fail("MISMATCH(query)", "%s returned %d for an object of exactly %zu bytes against %zu bytes that begin with it: a proper beginning sorts first", k, (int)got, m->len, alen);
                }
            }
        } else if (!strcmp(k, "dup")) {
            int d = (int)o->a[1];
            spif_mbuff_t t2;
            if (d < 0 || d >= NSLOT || objs[d]) goto skip;
            t2 = spif_mbuff_dup(self);
            if (!t2 || t2 == self) sim_fail("MISMATCH(dup)", "dup returned %s", t2 ? "the same object" : "NULL");
            objs[d] = t2;
            m_set(&mod[d], m->b, m->len);
        } else if (!strcmp(k, "show")) {
            spif_str_t sh = spif_mbuff_show(self, (spif_byteptr_t)"x", (spif_str_t)NULL, 2);
            if (!sh) sim_fail("MISMATCH(show)", "show returned NULL");
            spif_str_del(sh);
        } else goto skip;
    after:
        tr_printf("%s slot%d -> len=%zu", k, s, m->len);
        check_all(k);
    done:
        tr_u64("alloc", sa_live_digest());
    skip:
        if (arg) sim_free(arg);
        sa_set_tag(0);
    }
    R.cur_op = NULL;
    for (int i = 0; i < NSLOT; i++) if (objs[i]) { spif_mbuff_del(objs[i]); objs[i] = NULL; }
}

/* ------------------------------------------------------------------ generator */
static size_t glen[NSLOT]; static int gexists[NSLOT], gdone[NSLOT];
static unsigned char gbuf[20000];

static size_t gen_bytes(rng_t *r, unsigned char *buf, size_t max, int regime)
{
    size_t n;
    switch (regime) {
    case 1: { static const int b[] = { 4095, 4096, 4097, 8191, 8192, 8193, 12288 }; n = (size_t)b[rng_below(r, 7)]; break; }
    case 2: n = (size_t)rng_range(r, 4098, 13000); break;
    default: { int k = (int)rng_below(r, 10); n = k < 2 ? 0 : k < 4 ? 1 : k < 8 ? (size_t)rng_range(r, 2, 16) : (size_t)rng_range(r, 17, 120); break; }
    }
    if (n > max) n = max;
    for (size_t i = 0; i < n; i++) {
        int k = (int)rng_below(r, 10);
        buf[i] = k < 2 ? 0 : k < 4 ? (unsigned char)" \t\n"[rng_below(r, 3)] : k < 8 ? (unsigned char)('a' + rng_below(r, 5)) : (unsigned char)rng_below(r, 256);
    }
    if (regime == 3) for (size_t i = 0; i < n; i++) buf[i] = (unsigned char)" \t\n\r"[rng_below(r, 4)];
    return n;
}
static long gen_index(rng_t *r, size_t len)
{
    long L = (long)len;
    switch (rng_below(r, 12)) {
    case 0: { static const long lo[] = { -1000000000L, -2147483648L, -2147483649L, -9223372036854775807L, -9223372036854775807L - 1 }; return lo[rng_below(r, 5)]; } case 1: return -L - 1; case 2: return -L; case 3: return -1; case 4: return 0; case 5: return 1;
    case 6: return L / 2; case 7: return L - 1; case 8: return L; case 9: return L + 1; case 10: { static const long hi[] = { 2000000000L, 2147483647L, 2147483648L, 4294967296L, 9223372036854775807L, 9223372036854775806L }; long v = hi[rng_below(r, 6)]; return v == 9223372036854775806L ? 9223372036854775807L - L : v; }      /* (up to the very top of the index type: a sum with the other argument wraps) */
    default: return L ? (long)rng_below(r, (uint32_t)L) : 0;
    }
}
static int pick(rng_t *r, int want)
{
    int c[NSLOT], n = 0;
    for (int i = 0; i < NSLOT; i++) if (gexists[i] == want) c[n++] = i;
    return n ? c[rng_below(r, (uint32_t)n)] : -1;
}
static void gen_ctor(plan_t *p, rng_t *r, int slot, int isnew, int hard, int big)
{
    const char *pre = isnew ? "new" : "init";
    char kind[24];
    int which = (int)rng_below(r, 100), regime = big && rng_chance(r, 1, 2) ? rng_range(r, 1, 2) : rng_chance(r, 1, 8) ? 3 : 0;
    size_t n;
    op_t *o;
    if (which < 12) { snprintf(kind, sizeof(kind), "%s", pre); plan_op(p, 0, kind, 1, (long)slot); glen[slot] = 0; }
    else if (which < 35) {
        snprintf(kind, sizeof(kind), "%s_ptr", pre);
        o = plan_op(p, 0, kind, 1, (long)slot);
        if (!rng_chance(r, 1, 25)) { n = gen_bytes(r, gbuf, sizeof(gbuf), regime); op_str(o, gbuf, n); glen[slot] = n; } else glen[slot] = 0;
    } else if (which < 50) {
        long l, sz;
        snprintf(kind, sizeof(kind), "%s_buff", pre);
        n = gen_bytes(r, gbuf, sizeof(gbuf), regime == 3 ? 0 : regime);
        l = rng_chance(r, 2, 3) ? (long)n : (long)rng_below(r, (uint32_t)n + 1);
        sz = rng_chance(r, 1, 3) ? l : rng_chance(r, 1, 2) ? (long)rng_below(r, (uint32_t)l + 1) : l + (long)rng_below(r, 40);
        o = plan_op(p, 0, kind, 3, (long)slot, l, sz);
        if (!rng_chance(r, 1, 20)) op_str(o, gbuf, n);
        glen[slot] = o->has_s ? (size_t)l : 0;
    } else if (which < 75) {
        int seekable = rng_chance(r, 1, 2);
        snprintf(kind, sizeof(kind), "%s_fp", pre);
        n = gen_bytes(r, gbuf, sizeof(gbuf), big || rng_chance(r, 1, 3) ? rng_range(r, 1, 2) : 0);
        if (rng_chance(r, 1, 12)) { n = 4096; for (size_t j = 0; j < n; j++) gbuf[j] = (unsigned char)rng_below(r, 256); }
        if (rng_chance(r, 1, 5)) {
            /* a stream over a descriptor, possibly read from already */
            static const int pres[] = { 0, 0, 1, 1, 2, 5, 100, 4095, 4096, 4097 };
            o = plan_op(p, 0, kind, 4, (long)slot, (long)(2 + seekable), 0L, (long)pres[rng_below(r, 10)]);
        } else
        o = plan_op(p, 0, kind, 3, (long)slot, (long)seekable, (long)(seekable && rng_chance(r, 1, 6) ? rng_below(r, (uint32_t)n + 1) : 0));
        op_str(o, gbuf, n);
        { int nf = rng_range(r, 0, 8); static const int lims[] = { 1, 2, 3, 100, 1000, 4095, 4096, 4097 };
          for (int i = 0; i < nf; i++) op_fault(o, rng_chance(r, 1, 3) ? FAULT(FC_READ, FO_FULL, 0) : FAULT(FC_READ, FO_SHORT, lims[rng_below(r, 8)]));
          if (hard && rng_chance(r, 1, 3)) op_fault(o, FAULT(FC_READ, FO_EIO, 0)); }              /* the stream fails after nf reads */
        glen[slot] = n;
    } else {
        int seekable = rng_chance(r, 1, 2);
        snprintf(kind, sizeof(kind), "%s_fd", pre);
        n = gen_bytes(r, gbuf, sizeof(gbuf), big || rng_chance(r, 1, 3) ? rng_range(r, 1, 2) : 0);
        if (rng_chance(r, 1, 12)) { n = 4096; for (size_t j = 0; j < n; j++) gbuf[j] = (unsigned char)rng_below(r, 256); }
        int nonblock = !seekable && rng_chance(r, 1, 4);
        if (nonblock) o = plan_op(p, 0, kind, 4, (long)slot, 0L, 0L, 1L);
        else
        o = plan_op(p, 0, kind, 3, (long)slot, (long)seekable, (long)(seekable && rng_chance(r, 1, 6) ? rng_below(r, (uint32_t)n + 1) : 0));
        op_str(o, gbuf, n);
        if (seekable && hard && rng_chance(r, 1, 3)) op_fault(o, FAULT(FC_READ, FO_EIO, 0));          /* a regular file that cannot be read */
        if (!seekable) {
            int nf = rng_range(r, 0, 10);
            static const int lims[] = { 1, 2, 3, 7, 100, 1000, 4095, 4096, 4097, 5000 };
            for (int i = 0; i < nf; i++) {
                int k = (int)rng_below(r, 100);
                if (k < 25) op_fault(o, FAULT(FC_READ, FO_FULL, 0));
                else if (k < 75) op_fault(o, FAULT(FC_READ, FO_SHORT, lims[rng_below(r, 10)]));
                else if (k < 94) op_fault(o, FAULT(FC_READ, FO_EINTR, 0));
                else if (nonblock && k < 97) op_fault(o, FAULT(FC_READ, FO_EAGAIN, 0));
                else if (hard) op_fault(o, FAULT(FC_READ, FO_EIO, 0));
            }
        }
        glen[slot] = n;
    }
    gexists[slot] = 1; gdone[slot] = 0;
}

static void gen(plan_t *p, rng_t *r)
{
    int nops = rng_range(r, 4, 40 * sim_tier_scale()), hard = rng_chance(r, 1, 6), big = rng_chance(r, 1, 5);
    memset(gexists, 0, sizeof(gexists)); memset(glen, 0, sizeof(glen)); memset(gdone, 0, sizeof(gdone));
    plan_knob(p, "viaclass", rng_chance(r, 1, 3));
    plan_knob(p, "hard", hard);
    plan_knob(p, "alloc.fill", rng_range(r, 0, 4));
    plan_knob(p, "alloc.zero", rng_chance(r, 1, 4)); plan_knob(p, "alloc.realloc0", rng_chance(r, 1, 4));      /* the two readings ISO C allows for a request of no bytes */
    plan_knob(p, "alloc.realloc", rng_chance(r, 1, 2) ? REALLOC_MOVE : rng_range(r, 1, 2));
    plan_knob(p, "alloc.reuse", rng_range(r, 0, 2));
    gen_ctor(p, r, 0, 1, hard, big);
    for (int i = 0; i < nops; i++) {
        int s = pick(r, 1), k = (int)rng_below(r, 100), fs;
        op_t *o;
        size_t n;
        if (s < 0 || (k < 8 && (fs = pick(r, 0)) >= 0)) {
            s = s < 0 ? 0 : pick(r, 0);
            if (s >= 0 && !gexists[s]) { gen_ctor(p, r, s, 1, hard, big && rng_chance(r, 1, 3)); continue; }
            s = pick(r, 1);
        }
        if (gdone[s] && k < 60) { gen_ctor(p, r, s, 0, hard, 0); continue; }
        if (k < 16) {
            int os = pick(r, 1);
            if (os == s && !rng_chance(r, 1, 3)) os = -1;            /* one time in three the object itself is the argument */
            plan_op(p, 0, rng_chance(r, 1, 2) ? "append" : "prepend", 2, (long)s, (long)os);
            if (os >= 0) glen[s] += glen[os];
        } else if (k < 30) {
            o = plan_op(p, 0, rng_chance(r, 1, 2) ? "append_ptr" : "prepend_ptr", 3, (long)s, 0L, rng_chance(r, 1, 3) ? (long)rng_range(r, 1, 5000) : 0L);
            if (!rng_chance(r, 1, 20)) { n = gen_bytes(r, gbuf, sizeof(gbuf), rng_chance(r, 1, 25) ? 1 : rng_chance(r, 1, 8) ? 3 : 0); op_str(o, gbuf, n); glen[s] += n; }
        } else if (k < 34) plan_op(p, 0, "clear", 2, (long)s, (long)rng_below(r, 256));
        else if (k < 38) plan_op(p, 0, "reverse", 1, (long)s);
        else if (k < 44) plan_op(p, 0, "trim", 1, (long)s);
        else if (k < 54) {
            long idx = gen_index(r, glen[s]), cnt = rng_chance(r, 1, 2) ? (long)rng_below(r, 4) : gen_index(r, glen[s]);
            int symb = rng_chance(r, 1, 2);            /* position and count as classes relative to the real length */
            if (symb) { idx = (long)rng_below(r, 12) + 12 * (long)rng_below(r, 5000); cnt = (long)rng_below(r, 10) + 10 * (long)rng_below(r, 5000); }
            if (rng_chance(r, 1, 2)) { int os = pick(r, 1); if (os == s && !rng_chance(r, 1, 3)) os = -1; plan_op(p, 0, "splice", 5, (long)s, idx, cnt, (long)os, (long)symb); }
            else { o = plan_op(p, 0, "splice_ptr", 5, (long)s, idx, cnt, 0L, (long)symb); if (!rng_chance(r, 1, 8)) { n = gen_bytes(r, gbuf, sizeof(gbuf), 0); op_str(o, gbuf, n); } }
        } else if (k < 58) {
            int pow2 = rng_chance(r, 1, 8);         /* one in eight: a result whose length is a power of two, or one or two off it (a scratch buffer of any such size, filled exactly) */
            if (rng_chance(r, 1, 10)) o = plan_op(p, 0, "sprintf", 4, (long)s, (long)rng_below(r, 3), (long)(int)rng_u64(r), (long)rng_range(r, 1, 2));      /* the formatter fails at its first or second call */
            else o = plan_op(p, 0, "sprintf", 3, (long)s, pow2 && rng_chance(r, 2, 3) ? 0L : (long)rng_below(r, 5), (long)(int)rng_u64(r));
            n = pow2 ? (size_t)((1 << rng_range(r, 4, 13)) + rng_range(r, -2, 1)) : rng_chance(r, 1, 6) ? (size_t)rng_range(r, 4000, 12000) : (size_t)rng_range(r, 0, 20);      /* one in six formats several kilobytes */
            for (size_t j = 0; j < n; j++) gbuf[j] = (unsigned char)('a' + rng_below(r, 26));
            op_str(o, gbuf, n);
            glen[s] = n + 4;
        } else if (k < 62) { plan_op(p, 0, "done", 1, (long)s); gdone[s] = 1; glen[s] = 0; }
        else if (k < 65) { plan_op(p, 0, "del", 1, (long)s); gexists[s] = 0; glen[s] = 0; }
        else if (k < 72) plan_op(p, 0, rng_chance(r, 1, 2) ? "index" : "rindex", 2, (long)s, (long)(rng_chance(r, 1, 2) ? 'a' + rng_below(r, 6) : rng_below(r, 256)));
        else if (k < 78) {
            if (rng_chance(r, 1, 2)) plan_op(p, 0, "find", 2, (long)s, (long)(rng_chance(r, 1, 10) ? -1 : pick(r, 1)));
            else if (rng_chance(r, 1, 2)) { o = plan_op(p, 0, "find_ptr", 2, (long)s, (long)(1 + rng_below(r, 7)) + 8 * (long)rng_below(r, 5000)); op_str(o, "x", 1); }      /* needle taken from the buffer */
            else { o = plan_op(p, 0, "find_ptr", 3, (long)s, 0L, rng_chance(r, 1, 3) ? (long)rng_range(r, 1, 5000) : 0L); if (!rng_chance(r, 1, 15)) { n = gen_bytes(r, gbuf, 5, 0); op_str(o, gbuf, n); } }
        } else if (k < 84) { if (rng_chance(r, 1, 2)) plan_op(p, 0, rng_chance(r, 1, 2) ? "subbuff" : "subbuff_ptr", 4, (long)s, (long)rng_below(r, 12) + 12 * (long)rng_below(r, 5000), (long)rng_below(r, 10) + 10 * (long)rng_below(r, 5000), 1L);
          else plan_op(p, 0, rng_chance(r, 1, 2) ? "subbuff" : "subbuff_ptr", 3, (long)s, gen_index(r, glen[s]), rng_chance(r, 1, 2) ? (long)rng_below(r, 5) - 1 : gen_index(r, glen[s])); }
        else if (k < 93) {
            int v = (int)rng_below(r, 4);
            if (v == 0) plan_op(p, 0, "cmp", 3, (long)s, (long)(rng_chance(r, 1, 10) ? -1 : pick(r, 1)), rng_chance(r, 1, 4) ? 2L : 0L);
            else if (v == 1) plan_op(p, 0, "ncmp", 3, (long)s, (long)(rng_chance(r, 1, 10) ? -1 : pick(r, 1)), (long)rng_below(r, (uint32_t)glen[s] + 4));
            else {
                if (rng_chance(r, 1, 2)) { o = plan_op(p, 0, v == 2 ? "cmp_ptr" : "ncmp_ptr", 2, (long)s, (long)(1 + rng_below(r, 7)) + 8 * (long)rng_below(r, 5000)); op_str(o, "x", 1); }   /* bytes related to the buffer's own */
                else {
                    o = plan_op(p, 0, v == 2 ? "cmp_ptr" : "ncmp_ptr", 3, (long)s, 0L, rng_chance(r, 1, 3) ? (long)rng_range(r, 1, 5000) : 0L);
                    if (!rng_chance(r, 1, 10)) { n = gen_bytes(r, gbuf, 40, 0); op_str(o, gbuf, n); }
                }
            }
        } else if (k < 97) { int d = pick(r, 0); if (d >= 0) { plan_op(p, 0, "dup", 2, (long)s, (long)d); gexists[d] = 1; glen[d] = glen[s]; gdone[d] = 0; } }
        else if (k < 98) plan_op(p, 0, "show", 1, (long)s);
        else {
            /* equal-prefix pair: dup, extend the copy, compare both ways */
            int d = pick(r, 0);
            if (d >= 0) {
                plan_op(p, 0, "dup", 2, (long)s, (long)d); gexists[d] = 1; glen[d] = glen[s] + 1; gdone[d] = 0;
                o = plan_op(p, 0, "append_ptr", 1, (long)d); op_str(o, "z", 1);
                plan_op(p, 0, "cmp", 3, (long)s, (long)d, 0L);
                plan_op(p, 0, "cmp", 3, (long)d, (long)s, 0L);
            }
        }
    }
}

const engine_t mbufsim_engine = { "objsim-mbuff", "C07", gen, exec };
