/* objsim/protocol: C05 (dup is an independent equal copy; comp is a consistent order; type names the class)
 *                  C06 (every allocation is released exactly once across any object history).
 * A pool of objects of every value class is driven by a seeded program; the simulated allocator is the
 * ledger (conservation, double free, use after free) and provides poison-on-free / garbage fill / address
 * reuse / far placement so that shallow copies and address arithmetic show. */
#define _GNU_SOURCE
#include "sim.h"
#include "simfd.h"
#include "simfs.h"
#include "vobj.h"
#include <libast/array.h>
#include <libast/linked_list.h>
#include <libast/dlinked_list.h>
#include <libast/iterator_if.h>
#include <string.h>
#include <stdlib.h>
#include <ctype.h>

enum { K_STR, K_USTR, K_MBUFF, K_PAIR, K_TOK, K_URL, K_REGEXP,
       K_LIST_A, K_LIST_L, K_LIST_D, K_VEC_A, K_VEC_L, K_VEC_D, K_MAP_A, K_MAP_L, K_MAP_D, K_NKINDS };
static const char *kind_name[K_NKINDS] = { "str", "ustr", "mbuff", "objpair", "tok", "url", "regexp",
    "list:array", "list:linked_list", "list:dlinked_list", "vector:array", "vector:linked_list", "vector:dlinked_list",
    "map:array", "map:linked_list", "map:dlinked_list" };
#define IS_LIST(k) ((k) >= K_LIST_A && (k) <= K_LIST_D)
#define IS_VEC(k)  ((k) >= K_VEC_A && (k) <= K_VEC_D)
#define IS_MAP(k)  ((k) >= K_MAP_A && (k) <= K_MAP_D)
#define IS_CONT(k) ((k) >= K_LIST_A)

#define NSLOT 6
static spif_obj_t obj[NSLOT];
static int okind[NSLOT];
static int strelems;           /* containers hold str elements instead of vobj */
static int mode_c05;

/* ------------------------------------------------------------------ observation buffer */
typedef struct { char *b; size_t len, cap; } obuf_t;
static void ob_reset(obuf_t *o) { o->len = 0; if (!o->b) { o->cap = 256; o->b = malloc(o->cap); } o->b[0] = 0; }
static void ob_add(obuf_t *o, const void *p, size_t n)
{
    if (o->len + n + 1 > o->cap) { o->cap = (o->len + n + 1) * 2; o->b = realloc(o->b, o->cap); }
    memcpy(o->b + o->len, p, n); o->len += n; o->b[o->len] = 0;
}
static void ob_printf(obuf_t *o, const char *fmt, ...)
{
    char tmp[256]; va_list ap; int n;
    va_start(ap, fmt); n = vsnprintf(tmp, sizeof(tmp), fmt, ap); va_end(ap);
    if (n > 0) ob_add(o, tmp, (size_t)(n < (int)sizeof(tmp) ? n : (int)sizeof(tmp) - 1));
}
static char failbuf[96];
#define FAIL(kind_, oracle, k, ...) do { snprintf(failbuf, sizeof(failbuf), "%s(%s:%s)", kind_, oracle, kind_name[k]); sim_fail(failbuf, __VA_ARGS__); } while (0)

/* observe a str-like object safely */
static void obs_str(obuf_t *o, spif_str_t s, const char *tag, int k)
{
    if (!s) { ob_printf(o, "%s=NULL;", tag); return; }
    if (!sa_readable(s, sizeof(*s))) FAIL("INVARIANT", "dangling-component", k, "%s is not a live object", tag);
    if (s->len < 0 || s->len > (1 << 20)) FAIL("INVARIANT", "component-state", k, "%s has length %lld", tag, (long long)s->len);
    if (s->len && (!s->s || !sa_readable(s->s, (size_t)s->len + 1))) FAIL("INVARIANT", "dangling-component", k, "%s text is not a live block of len+1 bytes", tag);
    /* an object (a copy in particular) must own the capacity it reports: later operations write within it without asking */
    if (s->s && (s->size <= s->len || !sa_readable(s->s, (size_t)s->size))) FAIL("INVARIANT", "capacity", k, "%s reports capacity %lld for length %lld, its buffer is not a live block of that many bytes", tag, (long long)s->size, (long long)s->len);
    ob_printf(o, "%s=%lld:", tag, (long long)s->len);
    if (s->len) ob_add(o, s->s, (size_t)s->len);
    ob_add(o, ";", 1);
}
/* obs_identity: also say which element it is (or is a copy of).  Two elements that compare equal are still two elements, and a
   copy of a container holds copies of the same elements in the same places; used for the copy-equals-original check only --
   what comp() calls equal is a matter of keys. */
static int obs_identity;
static void obs_elem(obuf_t *o, spif_obj_t e, int k)
{
    if (!e) { ob_add(o, "H,", 2); return; }
    if (vobj_valid(e)) { if (obs_identity) ob_printf(o, "v%ld#%ld,", ((vobj_t)e)->key, ((vobj_t)e)->root); else ob_printf(o, "v%ld,", ((vobj_t)e)->key); return; }
    if (sa_readable(e, sizeof(struct spif_str_t_struct)) && SPIF_OBJ_IS_STR(e)) { obs_str(o, SPIF_STR(e), "s", k); return; }
    if (sa_readable(e, sizeof(struct spif_objpair_t_struct)) && SPIF_OBJ_IS_OBJPAIR(e)) {
        spif_objpair_t p = SPIF_OBJPAIR(e);
        ob_add(o, "(", 1); obs_elem(o, p->key, k); ob_add(o, "->", 2); obs_elem(o, p->value, k); ob_add(o, ")", 1);
        return;
    }
    FAIL("INVARIANT", "dangling-element", k, "a stored element is not a live object of a known class");
}
/* walk a container through its own structure with validated pointers */
static void obs_container(obuf_t *o, spif_obj_t c, int k)
{
    int impl = (k - K_LIST_A) % 3, n = 0;
    if (impl == 0) {
        spif_array_t a = SPIF_ARRAY(c);
        if (!sa_readable(a, sizeof(*a))) FAIL("INVARIANT", "container-block", k, "container object is not live");
        ob_printf(o, "n=%d[", a->len);
        if (a->len < 0 || a->len > 4096) FAIL("INVARIANT", "len-range", k, "len=%d", a->len);
        if (a->len && (!a->items || !sa_readable(a->items, (size_t)a->len * sizeof(spif_obj_t)))) FAIL("INVARIANT", "items-block", k, "items is not a live block of len pointers");
        for (int i = 0; i < a->len; i++) obs_elem(o, a->items[i], k);
    } else if (impl == 1) {
        spif_linked_list_t l = SPIF_LINKED_LIST(c);
        spif_linked_list_item_t it;
        if (!sa_readable(l, sizeof(*l))) FAIL("INVARIANT", "container-block", k, "container object is not live");
        ob_printf(o, "n=%d[", l->len);
        for (it = l->head; it; it = it->next) {
            if (!sa_readable(it, sizeof(*it))) FAIL("INVARIANT", "dangling-link", k, "node %d is not a live block", n);
            if (++n > 4096) FAIL("INVARIANT", "chain-length", k, "chain does not end");
            obs_elem(o, it->data, k);
        }
        if (n != l->len) FAIL("INVARIANT", "chain-length", k, "chain has %d nodes, len=%d", n, l->len);
    } else {
        spif_dlinked_list_t l = SPIF_DLINKED_LIST(c);
        spif_dlinked_list_item_t it, prev = NULL;
        if (!sa_readable(l, sizeof(*l))) FAIL("INVARIANT", "container-block", k, "container object is not live");
        ob_printf(o, "n=%d[", l->len);
        for (it = l->head; it; prev = it, it = it->next) {
            if (!sa_readable(it, sizeof(*it))) FAIL("INVARIANT", "dangling-link", k, "node %d is not a live block", n);
            if (it->prev != prev) FAIL("INVARIANT", "prev-link", k, "node %d has a wrong prev link", n);
            if (++n > 4096) FAIL("INVARIANT", "chain-length", k, "chain does not end");
            obs_elem(o, it->data, k);
        }
        if (n != l->len) FAIL("INVARIANT", "chain-length", k, "chain has %d nodes, len=%d", n, l->len);
        if (l->tail != prev) FAIL("INVARIANT", "tail", k, "tail does not point to the last node");
    }
    ob_add(o, "]", 1);
}

static void observe(obuf_t *o, int slot)
{
    spif_obj_t x = obj[slot];
    int k = okind[slot];
    ob_reset(o);
    if (!x) { ob_add(o, "-", 1); return; }
    if (!sa_readable(x, sizeof(void *))) FAIL("INVARIANT", "object-block", k, "object is not a live block");
    switch (k) {
    case K_STR: case K_USTR: obs_str(o, SPIF_STR(x), "t", k); break;
    case K_MBUFF: {
        spif_mbuff_t m = SPIF_MBUFF(x);
        if (!sa_readable(m, sizeof(*m))) FAIL("INVARIANT", "object-block", k, "object is not a live block");
        if (m->len < 0 || m->len > (1 << 20) || (m->len && (!m->buff || !sa_readable(m->buff, (size_t)m->len)))) FAIL("INVARIANT", "dangling-component", k, "buffer is not a live block of len bytes");
        if (m->buff && (m->size < m->len || (m->size && !sa_readable(m->buff, (size_t)m->size)))) FAIL("INVARIANT", "capacity", k, "buffer reports capacity %lld for length %lld, it is not a live block of that many bytes", (long long)m->size, (long long)m->len);
        ob_printf(o, "b=%lld:", (long long)m->len);
        if (m->len) ob_add(o, m->buff, (size_t)m->len);
        break;
    }
    case K_PAIR: {
        spif_objpair_t p = SPIF_OBJPAIR(x);
        if (!sa_readable(p, sizeof(*p))) FAIL("INVARIANT", "object-block", k, "object is not a live block");
        obs_elem(o, p->key, k); ob_add(o, "=>", 2); obs_elem(o, p->value, k);
        break;
    }
    case K_TOK: {
        spif_tok_t t = SPIF_TOK(x);
        if (!sa_readable(t, sizeof(*t))) FAIL("INVARIANT", "object-block", k, "object is not a live block");
        obs_str(o, t->src, "src", k); obs_str(o, t->sep, "sep", k);
        ob_printf(o, "q=%d,%d,%d;", t->quote, t->dquote, t->escape);
        if (t->tokens) {
            /* which list class holds the tokens is the tokenizer's business: the list is walked as what its class says it is */
            spif_class_t tc = sa_readable(t->tokens, sizeof(void *)) ? SPIF_OBJ_CLASS(SPIF_OBJ(t->tokens)) : NULL;
            int lk = tc == SPIF_CLASS(SPIF_LISTCLASS_VAR(array)) ? K_LIST_A : tc == SPIF_CLASS(SPIF_LISTCLASS_VAR(linked_list)) ? K_LIST_L : K_LIST_D;
            ob_add(o, "tok", 3); obs_container(o, t->tokens, lk);
        } else ob_add(o, "tok=NULL", 8);
        break;
    }
    case K_URL: {
        spif_url_t u = SPIF_URL(x);
        if (!sa_readable(u, sizeof(*u))) FAIL("INVARIANT", "object-block", k, "object is not a live block");
        obs_str(o, SPIF_STR(u), "text", k);
        obs_str(o, u->proto, "proto", k); obs_str(o, u->user, "user", k); obs_str(o, u->passwd, "passwd", k);
        obs_str(o, u->host, "host", k); obs_str(o, u->port, "port", k); obs_str(o, u->path, "path", k); obs_str(o, u->query, "query", k);
        break;
    }
    case K_REGEXP: {
        spif_regexp_t r = SPIF_REGEXP(x);
        if (!sa_readable(r, sizeof(*r))) FAIL("INVARIANT", "object-block", k, "object is not a live block");
        obs_str(o, SPIF_STR(r), "pat", k);
        ob_printf(o, "flags=%d;compiled=%d;", r->flags, r->data != NULL);
        if (r->data) {
            if (!sa_readable(r->data, 8)) FAIL("INVARIANT", "dangling-component", k, "compiled pattern is not a live block");
            ob_printf(o, "m=%d%d%d;", (int)spif_regexp_matches_ptr(r, (spif_charptr_t)"abc"), (int)spif_regexp_matches_ptr(r, (spif_charptr_t)"ABC"), (int)spif_regexp_matches_ptr(r, (spif_charptr_t)"x\ny"));
        }
        break;
    }
    default: obs_container(o, x, k); break;
    }
}

/* ------------------------------------------------------------------ making and mutating objects */
static char *cstr(const op_t *o) { char *c = sim_malloc(o->slen + 1); if (o->slen) memcpy(c, o->s, o->slen); c[o->slen] = 0; for (size_t i = 0; i < o->slen; i++) if (!c[i]) c[i] = '0'; return c; }
static spif_obj_t new_elem(long key)
{
    char t[24];
    if (!strelems) return SPIF_OBJ(vobj_new(key));
    snprintf(t, sizeof(t), "e%03ld", key);
    return SPIF_OBJ(spif_str_new_from_ptr((spif_charptr_t)t));
}
static spif_obj_t new_cont(int k)
{
    switch (k) {
    case K_LIST_A: return SPIF_OBJ(SPIF_LIST_NEW(array)); case K_LIST_L: return SPIF_OBJ(SPIF_LIST_NEW(linked_list)); case K_LIST_D: return SPIF_OBJ(SPIF_LIST_NEW(dlinked_list));
    case K_VEC_A: return SPIF_OBJ(SPIF_VECTOR_NEW(array)); case K_VEC_L: return SPIF_OBJ(SPIF_VECTOR_NEW(linked_list)); case K_VEC_D: return SPIF_OBJ(SPIF_VECTOR_NEW(dlinked_list));
    case K_MAP_A: return SPIF_OBJ(SPIF_MAP_NEW(array)); case K_MAP_L: return SPIF_OBJ(SPIF_MAP_NEW(linked_list)); default: return SPIF_OBJ(SPIF_MAP_NEW(dlinked_list));
    }
}
static void cont_add(spif_obj_t c, int k, long key, long how)
{
    if (IS_LIST(k)) {
        spif_obj_t e = new_elem(key);
        if (how % 4 == 0) SPIF_LIST_PREPEND(c, e);
        else if (how % 4 == 1) { if (!SPIF_LIST_INSERT_AT(c, e, (spif_listidx_t)(SPIF_LIST_COUNT(c) + how % 3))) SPIF_OBJ_DEL(e); else probe_hit("list_with_holes"); }
        else SPIF_LIST_APPEND(c, e);
    } else if (IS_VEC(k)) SPIF_VECTOR_INSERT(c, new_elem(key));
    else {
        spif_obj_t kk = new_elem(key), vv = new_elem(100 + how);
        if (SPIF_MAP_SET(c, kk, vv)) probe_hit("map_value_overwritten");
        SPIF_OBJ_DEL(kk); SPIF_OBJ_DEL(vv);
    }
}

static spif_obj_t make(int k, const op_t *o)
{
    long variant = o->a[2], src = o->na > 3 ? o->a[3] : 0;
    char *t = cstr(o);
    spif_obj_t r = NULL;
    if (src > 0 && (k == K_STR || k == K_USTR || k == K_MBUFF || k == K_TOK)) {
        /* made from a descriptor (1 streaming, 2 regular file) or a stdio stream (3 not seekable, 4 seekable), possibly positioned
           at its end, possibly failing: a constructor that gives up must not keep anything (it has nothing to hand to the caller) */
        size_t len = o->slen, pos = o->na > 4 && o->a[4] > 0 ? (size_t)o->a[4] : 0;
        if (pos > len) pos = len;
        simfd_hard_error = 0; simfd_eagain = 0;
        if (src <= 2) {
            int fd = simfd_new_src(0, o->s, len, src == 2, 0, src == 2 ? pos : 0);
            r = k == K_STR ? SPIF_OBJ(spif_str_new_from_fd(fd)) : k == K_USTR ? SPIF_OBJ(spif_ustr_new_from_fd(fd)) : k == K_TOK ? SPIF_OBJ(spif_tok_new_from_fd(fd)) : SPIF_OBJ(spif_mbuff_new_from_fd(fd));
            simfd_close_harness(0, fd);
        } else {
            FILE *fp = simfd_cookie_stream(o->s, len, src == 4, src == 4 ? pos : 0);
            r = k == K_STR ? SPIF_OBJ(spif_str_new_from_fp(fp)) : k == K_USTR ? SPIF_OBJ(spif_ustr_new_from_fp(fp)) : k == K_TOK ? SPIF_OBJ(spif_tok_new_from_fp(fp)) : SPIF_OBJ(spif_mbuff_new_from_fp(fp));
            fclose(fp);
        }
        probe_hit(r ? "stream_constructor_ok" : "stream_constructor_gave_up");
        sim_free(t);
        return r;
    }
    switch (k) {
    case K_STR:
        if (variant % 4 == 0) r = SPIF_OBJ(spif_str_new());
        else if (variant % 4 == 1) r = SPIF_OBJ(spif_str_new_from_buff((spif_charptr_t)t, (spif_stridx_t)(strlen(t) + (size_t)(variant % 7))));
        else if (variant % 4 == 2) r = SPIF_OBJ(spif_str_new_from_num(variant));
        else r = SPIF_OBJ(spif_str_new_from_ptr((spif_charptr_t)t));
        break;
    case K_USTR:
        if (variant % 5 == 0) r = SPIF_OBJ(spif_ustr_new());
        else if (variant % 5 == 1) r = SPIF_OBJ(spif_ustr_new_from_buff((spif_charptr_t)t, (spif_ustridx_t)(strlen(t) + (size_t)(variant % 7))));
        else if (variant % 5 == 2) r = SPIF_OBJ(spif_ustr_new_from_num(variant));
        else r = SPIF_OBJ(spif_ustr_new_from_ptr((spif_charptr_t)t));
        break;
    case K_MBUFF:
        if (variant % 3 == 0) r = SPIF_OBJ(spif_mbuff_new());
        else if (variant % 3 == 1) r = SPIF_OBJ(spif_mbuff_new_from_buff((spif_byteptr_t)o->s, (spif_memidx_t)o->slen, (spif_memidx_t)(o->slen + (size_t)(variant % 5))));
        else r = SPIF_OBJ(spif_mbuff_new_from_ptr((spif_byteptr_t)o->s, (spif_memidx_t)o->slen));
        break;
    case K_PAIR: {
        spif_obj_t a = new_elem(variant % 5), b = new_elem(50 + variant % 7);
        if (variant % 5 == 4) { r = SPIF_OBJ(spif_objpair_new()); probe_hit("pair_plain_new"); }
        else if (variant % 4 == 0) { r = SPIF_OBJ(spif_objpair_new_from_key(a)); probe_hit("pair_without_value"); }
        else if (variant % 4 == 1) r = SPIF_OBJ(spif_objpair_new_from_value(b));
        else r = SPIF_OBJ(spif_objpair_new_from_both(a, b));
        SPIF_OBJ_DEL(a); SPIF_OBJ_DEL(b);
        break;
    }
    case K_TOK:
        r = variant % 5 == 0 ? SPIF_OBJ(spif_tok_new()) : SPIF_OBJ(spif_tok_new_from_ptr((spif_charptr_t)t));
        if (r && variant % 5 >= 2) { spif_tok_eval(SPIF_TOK(r)); probe_hit("tok_evaluated"); }
        break;
    case K_URL:
        if (variant % 6 == 0) r = SPIF_OBJ(spif_url_new());
        else if (variant % 6 == 5) { spif_str_t so = spif_str_new_from_ptr((spif_charptr_t)t); r = SPIF_OBJ(spif_url_new_from_str(so)); spif_str_del(so); }      /* from a string object that is gone afterwards */
        else r = SPIF_OBJ(spif_url_new_from_ptr((spif_charptr_t)t));
        break;
    case K_REGEXP:
        r = variant % 6 == 0 ? SPIF_OBJ(spif_regexp_new()) : SPIF_OBJ(spif_regexp_new_from_ptr((spif_charptr_t)t));
        if (r && variant % 6 >= 2) { if (variant % 2) spif_regexp_set_flags(SPIF_REGEXP(r), (spif_charptr_t)"i"); spif_regexp_compile(SPIF_REGEXP(r)); probe_hit("regexp_compiled"); }
        break;
    default:
        r = new_cont(k);
        for (long i = 0; i < variant % 6; i++) cont_add(r, k, (variant / 6 + i * 3) % 7, variant + i);
        if (variant % 6 == 0) probe_hit("empty_container");
        break;
    }
    sim_free(t);
    return r;
}

/* second generation of mutators (plan argument 4; added after measuring which lines of the libraries the programs executed, see
   tools/coverage.py): positions counted from the end, negative counts, the middle of lists, the rarer regexp flags.  Returns 0 where the
   kind has no such variant (the ordinary mutator runs instead). */
static int mutate_ext(spif_obj_t x, int k, long how, long ext, char *t, const op_t *o)
{
    switch (k) {
    case K_STR: {
        spif_str_t s = SPIF_STR(x);
        long L = s->len, neg = -(1 + (L ? how % L : 0));
        switch (ext % 4) {
        case 0: spif_str_splice_from_ptr(s, (spif_stridx_t)neg, (spif_stridx_t)((how / 7) % 3), (spif_charptr_t)t); break;
        case 1: spif_str_splice_from_ptr(s, (spif_stridx_t)(how % (L + 1)), (spif_stridx_t)(-((how / 7) % 3)), (spif_charptr_t)t); break;
        case 2: { spif_str_t tmp = spif_str_new_from_ptr((spif_charptr_t)t); spif_str_splice(s, (spif_stridx_t)neg, (spif_stridx_t)(-((how / 7) % 2)), tmp); spif_str_del(tmp); break; }
        default: { spif_str_t tmp = spif_str_new(); spif_str_append(s, tmp); spif_str_prepend(s, tmp); spif_str_append(tmp, s); spif_str_del(tmp); break; }      /* to and from a string without a buffer */
        }
        return 1;
    }
    case K_USTR: {
        spif_ustr_t s = (spif_ustr_t)x;
        long L = s->len, neg = -(1 + (L ? how % L : 0));
        switch (ext % 3) {
        case 0: spif_ustr_splice_from_ptr(s, (spif_ustridx_t)neg, (spif_ustridx_t)((how / 7) % 3), (spif_charptr_t)t); break;
        case 1: spif_ustr_splice_from_ptr(s, (spif_ustridx_t)(how % (L + 1)), (spif_ustridx_t)(-((how / 7) % 3)), (spif_charptr_t)t); break;
        default: { spif_ustr_t tmp = spif_ustr_new_from_ptr((spif_charptr_t)t); spif_ustr_splice(s, (spif_ustridx_t)neg, (spif_ustridx_t)(-((how / 7) % 2)), tmp); spif_ustr_append(s, tmp); spif_ustr_prepend(s, tmp); spif_ustr_del(tmp); break; }
        }
        return 1;
    }
    case K_MBUFF: {
        spif_mbuff_t m = SPIF_MBUFF(x);
        long L = m->len, neg = -(1 + (L ? how % L : 0));
        switch (ext % 4) {
        case 0: spif_mbuff_splice_from_ptr(m, (spif_memidx_t)neg, (spif_memidx_t)((how / 7) % 3), (spif_byteptr_t)o->s, (spif_memidx_t)o->slen); break;
        case 1: spif_mbuff_splice_from_ptr(m, (spif_memidx_t)(how % (L + 1)), (spif_memidx_t)(-((how / 7) % 3)), (spif_byteptr_t)o->s, (spif_memidx_t)o->slen); break;
        case 2: { spif_mbuff_t tmp = spif_mbuff_new_from_ptr((spif_byteptr_t)o->s, (spif_memidx_t)o->slen); if (tmp) { spif_mbuff_splice(m, (spif_memidx_t)neg, (spif_memidx_t)(-((how / 7) % 2)), tmp); spif_mbuff_prepend(m, tmp); spif_mbuff_del(tmp); } break; }
        default: spif_mbuff_splice_from_ptr(m, (spif_memidx_t)(how % (L + 1)), 1, (spif_byteptr_t)NULL, 0); break;      /* nothing put in: a plain removal */
        }
        return 1;
    }
    case K_REGEXP: {
        static const char *fl[] = { "u", "8", "^", "$", "E", "iu^$", "smx8E", "i?m" };
        spif_regexp_t r = SPIF_REGEXP(x);
        spif_regexp_set_flags(r, (spif_charptr_t)fl[ext % 8]);
        spif_regexp_compile(r);
        return 1;
    }
    default:
        if (IS_LIST(k)) {
            long n = (long)SPIF_LIST_COUNT(x);
            switch (ext % 4) {
            case 0: { spif_obj_t e = new_elem(how % 7); if (!SPIF_LIST_INSERT_AT(x, e, (spif_listidx_t)(n ? how % n : 0))) SPIF_OBJ_DEL(e); break; }                /* somewhere inside */
            case 1: { spif_obj_t e = new_elem(how % 7); if (!SPIF_LIST_INSERT_AT(x, e, (spif_listidx_t)(-(1 + how % (n + 1))))) SPIF_OBJ_DEL(e); break; }      /* counted from the end */
            case 2: { spif_obj_t e = SPIF_LIST_REMOVE_AT(x, (spif_listidx_t)(n ? how % n : 0)); if (e) SPIF_OBJ_DEL(e); break; }
            default: { spif_obj_t e = SPIF_LIST_REMOVE_AT(x, (spif_listidx_t)(-(1 + how % (n + 1)))); if (e) SPIF_OBJ_DEL(e); (void)SPIF_LIST_GET(x, (spif_listidx_t)(-(1 + how % (n + 1)))); break; }
            }
            return 1;
        }
        return 0;
    }
}

/* third generation (plan argument 5, after seeded round 13): the argument is the object itself -- appended or prepended to itself, spliced
   into itself, compared with and copied over by itself.  The pinned library gets these right (it re-reads the source after it resized the
   destination, or goes through a scratch block); what can go wrong is a read of the block that was just given back, which is C06's own
   business.  Returns 0 where the kind has no operation that takes a second object of its class. */
static int mutate_alias(spif_obj_t x, int k, long how, long al)
{
    if (al >= 13) {
        /* (added after seeded round 15) a formatted text of about 4096 characters: where a stack buffer for the common case ends and the heap path begins */
        int width = (int)(4088 + how % 16) + (al == 15 ? 3000 : 0);
        if (k == K_STR) spif_str_sprintf(SPIF_STR(x), (spif_charptr_t)"%0*ld", width, how);
        else if (k == K_USTR) spif_ustr_sprintf((spif_ustr_t)x, (spif_charptr_t)"%0*ld", width, how);
        else if (k == K_MBUFF) spif_mbuff_sprintf(SPIF_MBUFF(x), (spif_charptr_t)"%0*ld", width, how);
        else return 0;
        probe_hit("formatted_text_of_four_kilobytes");
        return 1;
    }
    /* every one of these doubles the object: beyond a few kilobytes the ordinary mutators take over, or a dozen of them in a row would use up the arena */
    if ((k == K_STR && SPIF_STR(x)->len > 8192) || (k == K_USTR && ((spif_ustr_t)x)->len > 8192) || (k == K_MBUFF && SPIF_MBUFF(x)->len > 8192)) return 0;
    switch (k) {
    case K_STR: {
        spif_str_t s = SPIF_STR(x);
        long L = s->len;
        switch (al % 4) {
        case 0: spif_str_append(s, s); break;
        case 1: spif_str_prepend(s, s); break;
        case 2: spif_str_splice(s, (spif_stridx_t)(L ? how % L : 0), (spif_stridx_t)((how / 7) % 3), s); break;
        default: spif_str_splice(s, (spif_stridx_t)(-(1 + (L ? how % L : 0))), (spif_stridx_t)(-((how / 7) % 2)), s); break;
        }
        return 1;
    }
    case K_USTR: {
        spif_ustr_t s = (spif_ustr_t)x;
        long L = s->len;
        switch (al % 3) {
        case 0: spif_ustr_append(s, s); break;
        case 1: spif_ustr_prepend(s, s); break;
        default: spif_ustr_splice(s, (spif_ustridx_t)(L ? how % L : 0), (spif_ustridx_t)((how / 7) % 3), s); break;
        }
        return 1;
    }
    case K_MBUFF: {
        spif_mbuff_t m = SPIF_MBUFF(x);
        long L = m->len;
        switch (al % 3) {
        case 0: spif_mbuff_append(m, m); break;
        case 1: spif_mbuff_prepend(m, m); break;
        default: spif_mbuff_splice(m, (spif_memidx_t)(L ? how % L : 0), (spif_memidx_t)((how / 7) % 3), m); break;
        }
        return 1;
    }
    default:
        return 0;
    }
}

static void mutate(int slot, const op_t *o)
{
    spif_obj_t x = obj[slot];
    int k = okind[slot];
    long how = o->a[1];
    char *t = cstr(o);
    if (o->na > 4 && o->a[4] && mutate_alias(x, k, how, o->a[4])) { sim_free(t); probe_hit("object_is_its_own_argument"); return; }
    if (o->na > 3 && o->a[3] && mutate_ext(x, k, how, o->a[3], t, o)) { sim_free(t); probe_hit("extended_mutator_2"); return; }
    switch (k) {
    case K_STR: {
        spif_str_t s = SPIF_STR(x);
        long mode = o->na > 2 ? o->a[2] : 0;
        if (mode) {
            long L = s->len;
            switch (mode % 5) {
            case 0: spif_str_splice_from_ptr(s, (spif_stridx_t)(L ? how % L : 0), (spif_stridx_t)((how / 7) % 3), (spif_charptr_t)t); break;
            case 1: spif_str_prepend_from_ptr(s, (spif_charptr_t)t); break;
            case 2: spif_str_append_char(s, 'A'); break;
            case 3: spif_str_downcase(s); break;
            default: { spif_str_t tmp = spif_str_new_from_ptr((spif_charptr_t)t); spif_str_splice(s, (spif_stridx_t)(L ? how % L : 0), 1, tmp); spif_str_prepend(s, tmp); spif_str_del(tmp); break; }
            }
            probe_hit("extended_mutator");
            break;
        }
        switch (how % 8) {
        case 0: spif_str_append_from_ptr(s, (spif_charptr_t)t); break;
        case 1: spif_str_prepend_char(s, 'P'); break;
        case 2: spif_str_clear(s, 'c'); break;
        case 3: spif_str_trim(s); break;
        case 4: spif_str_splice_from_ptr(s, 0, 1, (spif_charptr_t)t); break;
        case 5: spif_str_sprintf(s, (spif_charptr_t)"%s-%ld", t, how); break;
        case 6: spif_str_upcase(s); break;
        default: spif_str_reverse(s); break;
        }
        break;
    }
    case K_USTR: {
        spif_ustr_t s = (spif_ustr_t)x;
        long mode = o->na > 2 ? o->a[2] : 0;
        if (mode) {
            long L = s->len;
            switch (mode % 5) {
            case 0: spif_ustr_splice_from_ptr(s, (spif_ustridx_t)(L ? how % L : 0), (spif_ustridx_t)((how / 7) % 3), (spif_charptr_t)t); break;
            case 1: spif_ustr_sprintf(s, (spif_charptr_t)"%s-%ld", t, how); break;
            case 2: spif_ustr_trim(s); break;
            case 3: spif_ustr_reverse(s); break;
            default: spif_ustr_upcase(s); break;
            }
            probe_hit("extended_mutator");
            break;
        }
        switch (how % 6) {
        case 0: spif_ustr_append_from_ptr(s, (spif_charptr_t)t); break; case 1: spif_ustr_clear(s, 'u'); break; case 2: spif_ustr_prepend_char(s, 'U'); break;
        case 3: spif_ustr_append_char(s, 'c'); break; case 4: spif_ustr_prepend_from_ptr(s, (spif_charptr_t)t); break; default: spif_ustr_downcase(s); break;
        }
        break;
    }
    case K_MBUFF: {
        spif_mbuff_t m = SPIF_MBUFF(x);
        long mode = o->na > 2 ? o->a[2] : 0;
        if (mode) {
            long L = m->len;
            switch (mode % 5) {
            case 0: spif_mbuff_splice_from_ptr(m, (spif_memidx_t)(L ? how % L : 0), (spif_memidx_t)((how / 7) % 3), (spif_byteptr_t)o->s, (spif_memidx_t)o->slen); break;
            case 1: spif_mbuff_prepend_from_ptr(m, (spif_byteptr_t)o->s, (spif_memidx_t)o->slen); break;
            case 2: spif_mbuff_trim(m); break;
            case 3: { spif_mbuff_t tmp = spif_mbuff_new_from_ptr((spif_byteptr_t)o->s, (spif_memidx_t)o->slen); if (tmp) { spif_mbuff_append(m, tmp); spif_mbuff_del(tmp); } break; }
            default: { spif_mbuff_t tmp = spif_mbuff_new_from_ptr((spif_byteptr_t)o->s, (spif_memidx_t)o->slen); if (tmp) { spif_mbuff_splice(m, (spif_memidx_t)(L ? how % L : 0), 1, tmp); spif_mbuff_del(tmp); } break; }
            }
            probe_hit("extended_mutator");
            break;
        }
        if (how % 4 == 0) spif_mbuff_append_from_ptr(m, (spif_byteptr_t)t, (spif_memidx_t)o->slen);
        else if (how % 4 == 1) spif_mbuff_clear(m, 'm'); else if (how % 4 == 2) spif_mbuff_reverse(m); else spif_mbuff_sprintf(m, (spif_charptr_t)"%ld", how);
        break;
    }
    case K_PAIR: {
        spif_objpair_t p = SPIF_OBJPAIR(x);
        if (how % 2) spif_objpair_set_value(p, new_elem(60 + how % 9)); else spif_objpair_set_key(p, new_elem(how % 9));
        probe_hit("property_setter");
        break;
    }
    case K_TOK: {
        spif_tok_t tk = SPIF_TOK(x);
        long mode = o->na > 2 ? o->a[2] : 0;
        if (mode == 1) { spif_tok_set_src(tk, (spif_str_t)NULL); probe_hit("property_set_to_null"); }          /* a tokenizer without a source */
        else if (mode == 2) {
            /* a token list handed in from outside */
            spif_list_t l = SPIF_LIST_NEW(dlinked_list);
            SPIF_LIST_APPEND(l, SPIF_OBJ(spif_str_new_from_ptr((spif_charptr_t)"tA"))); SPIF_LIST_APPEND(l, SPIF_OBJ(spif_str_new_from_ptr((spif_charptr_t)t)));
            spif_tok_set_tokens(tk, l); probe_hit("tok_tokens_handed_in");
        }
        else if (mode == 3) { spif_tok_set_sep(tk, (spif_str_t)NULL); probe_hit("property_set_to_null"); }
        else if (mode >= 4 && mode <= 6) {
            /* other quote / escape characters than the defaults, then evaluate with them */
            static const char qc[] = { '`', '|', '#', 0 };
            char c = qc[how % 4];
            if (mode == 4) spif_tok_set_quote(tk, c); else if (mode == 5) spif_tok_set_dquote(tk, c); else spif_tok_set_escape(tk, c);
            spif_tok_eval(tk);
            probe_hit("tok_quote_characters_changed");
        }
        else if (how % 4 == 0) { spif_tok_set_src(tk, spif_str_new_from_ptr((spif_charptr_t)t)); probe_hit("property_setter"); }
        else if (how % 4 == 1) { spif_tok_set_sep(tk, spif_str_new_from_ptr((spif_charptr_t)":,")); probe_hit("property_setter"); }
        else { if (tk->tokens) probe_hit("tok_reevaluated"); spif_tok_eval(tk); }
        break;
    }
    case K_URL: {
        spif_url_t u = SPIF_URL(x);
        long mode = o->na > 2 ? o->a[2] : 0;
        if (mode) {
            /* a component taken away again */
            switch (mode) {
            case 1: spif_url_set_port(u, (spif_str_t)NULL); break; case 2: spif_url_set_path(u, (spif_str_t)NULL); break; case 3: spif_url_set_user(u, (spif_str_t)NULL); break;
            case 4: spif_url_set_host(u, (spif_str_t)NULL); break;
            case 5: spif_url_set_user(u, spif_str_new_from_ptr((spif_charptr_t)"usr")); break; case 6: spif_url_set_passwd(u, spif_str_new_from_ptr((spif_charptr_t)"pw")); break;
            case 7: spif_url_set_path(u, spif_str_new_from_ptr((spif_charptr_t)"/p/q")); break;
            case 8: spif_url_set_query(u, (spif_str_t)NULL); break; default: spif_url_set_proto(u, (spif_str_t)NULL); break;
            }
            probe_hit(mode >= 5 && mode <= 7 ? "property_setter" : "property_set_to_null");
            break;
        }
        switch (how % 5) {
        case 0: spif_url_set_host(u, spif_str_new_from_ptr((spif_charptr_t)"h.example")); probe_hit("property_setter"); break;
        case 1: spif_url_set_port(u, spif_str_new_from_num(how % 9000)); probe_hit("property_setter"); break;
        case 2: spif_url_set_query(u, spif_str_new_from_ptr((spif_charptr_t)t)); probe_hit("property_setter"); break;
        case 3: spif_url_unparse(u); break;
        default: spif_url_set_proto(u, spif_str_new_from_ptr((spif_charptr_t)"zz")); probe_hit("property_setter"); break;
        }
        break;
    }
    case K_REGEXP: {
        spif_regexp_t r = SPIF_REGEXP(x);
        long mode = o->na > 2 ? o->a[2] : 0;
        if (mode) { static const char *fl[] = { "s", "x", "im", "" }; spif_regexp_set_flags(r, (spif_charptr_t)fl[mode % 4]); spif_regexp_compile(r); probe_hit("extended_mutator"); break; }
        if (how % 3 == 0) spif_regexp_set_flags(r, (spif_charptr_t)(how % 2 ? "i" : "m")); else { if (r->data) probe_hit("regexp_recompiled"); spif_regexp_compile(r); }
        break;
    }
    default:
        if (o->na > 2 && o->a[2]) {
            long mode = o->a[2];
            spif_obj_t pr = new_elem(how % 7);
            if (IS_LIST(k)) {
                /* the by-value operations on a list that may hold placeholders, duplicates and any order */
                if (mode % 3 == 0) { spif_obj_t e = SPIF_LIST_REMOVE(x, pr); if (e) SPIF_OBJ_DEL(e); }
                else if (mode % 3 == 1) { spif_obj_t e = new_elem(how % 7); if (!SPIF_LIST_INSERT(x, e)) SPIF_OBJ_DEL(e); }
                else SPIF_LIST_CONTAINS(x, pr);
            } else if (IS_VEC(k)) { SPIF_VECTOR_CONTAINS(x, pr); SPIF_VECTOR_COUNT(x); }
            else {
                if (mode == 9) {
                    /* get - modify - set: the value the map handed out goes back in under the same key */
                    spif_obj_t v = SPIF_MAP_GET(x, pr);
                    if (v) { SPIF_MAP_SET(x, pr, v); probe_hit("set_with_own_value"); }
                }
                else if (mode == 11) { SPIF_MAP_SET(x, pr, pr); probe_hit("set_key_as_its_own_value"); }      /* one object as key and as value */
                else if (mode == 10) {
                    /* every entry updated while walking the map, under the key object the map itself stores */
                    spif_iterator_t it = SPIF_MAP_ITERATOR(x);
                    spif_obj_t nv = new_elem(100 + how % 9);
                    int n = 0;
                    while (it && SPIF_ITERATOR_HAS_NEXT(it) && n++ < 64) {
                        spif_objpair_t pp = (spif_objpair_t)SPIF_ITERATOR_NEXT(it);
                        if (pp && spif_objpair_get_key(pp)) { SPIF_MAP_SET(x, spif_objpair_get_key(pp), nv); probe_hit("set_with_own_key"); }
                    }
                    if (it) SPIF_ITERATOR_DEL(it);
                    SPIF_OBJ_DEL(nv);
                }
                else if (mode % 4 == 0) { spif_obj_t vv = new_elem(100 + how % 9); spif_objpair_t pp = spif_objpair_new_from_both(pr, vv); SPIF_MAP_SET(x, pp, (spif_obj_t)NULL); spif_objpair_del(pp); SPIF_OBJ_DEL(vv); probe_hit("set_via_pair"); }
                else if (mode % 4 == 1) {
                    /* keys / values / pairs added to a list the caller brings along */
                    spif_list_t given = how % 2 ? SPIF_LIST_NEW(dlinked_list) : SPIF_LIST_NEW(linked_list), got;
                    if (how % 3) SPIF_LIST_APPEND(given, new_elem(9));
                    got = how % 3 == 0 ? SPIF_MAP_GET_KEYS(x, given) : how % 3 == 1 ? SPIF_MAP_GET_VALUES(x, given) : SPIF_MAP_GET_PAIRS(x, given);
                    if (got && got != given) SPIF_LIST_DEL(got);
                    SPIF_LIST_DEL(given);
                    probe_hit("map_list_into_given");
                }
                else if (mode % 4 == 2) { spif_iterator_t it = SPIF_MAP_ITERATOR(x); if (it) { if (SPIF_ITERATOR_HAS_NEXT(it)) SPIF_ITERATOR_NEXT(it); SPIF_ITERATOR_DEL(it); } }
                else { SPIF_MAP_HAS_KEY(x, pr); SPIF_MAP_COUNT(x); }
            }
            SPIF_OBJ_DEL(pr);
            probe_hit("extended_mutator");
        }
        else if (how % 3) cont_add(x, k, how % 7, how);
        else if (IS_LIST(k)) { spif_obj_t e = SPIF_LIST_REMOVE_AT(x, (spif_listidx_t)(how % 5) - 2); if (e) SPIF_OBJ_DEL(e); SPIF_LIST_REVERSE(x); }
        else if (IS_VEC(k)) { spif_obj_t pr = new_elem(how % 7), e = SPIF_VECTOR_REMOVE(x, pr); SPIF_OBJ_DEL(pr); if (e) { SPIF_OBJ_DEL(e); probe_hit("removed_element_deleted_by_caller"); } }
        else { spif_obj_t pr = new_elem(how % 7), e = SPIF_MAP_REMOVE(x, pr); SPIF_OBJ_DEL(pr); if (e) { SPIF_OBJ_DEL(e); probe_hit("removed_element_deleted_by_caller"); } }
        break;
    }
    sim_free(t);
}

/* read-only use of the whole query API; everything handed out is released by the caller */
static void query(int slot, const op_t *o)
{
    spif_obj_t x = obj[slot];
    int k = okind[slot];
    long how = o->a[1];
    spif_str_t sh;
    switch (k) {
    case K_STR: {
        long qx = o->na > 2 ? o->a[2] : 0, L = SPIF_STR(x)->len;
        spif_str_t s = SPIF_STR(x), sub = qx ? spif_str_substr(s, (spif_stridx_t)(-(1 + (L ? how % L : 0))), (spif_stridx_t)(-(qx % 3))) : spif_str_substr(s, 0, 2);
        spif_charptr_t p = qx ? spif_str_substr_to_ptr(s, (spif_stridx_t)(L ? how % L : 0), (spif_stridx_t)(-(qx % 3))) : spif_str_substr_to_ptr(s, -1, 1);
        if (sub) spif_str_del(sub);
        if (p) LIB_FREE(p);
        spif_str_index(s, 'a'); spif_str_to_num(s, 10);
        break;
    }
    case K_USTR: {
        /* the ustr twins of the allocating queries: what they hand out is the caller's to release, and nothing else may be left */
        spif_ustr_t s = (spif_ustr_t)x, sub = spif_ustr_substr(s, 0, 2);
        spif_charptr_t p = spif_ustr_substr_to_ptr(s, (spif_ustridx_t)(how % 3), (spif_ustridx_t)(1 + how % 4));
        if (sub) spif_ustr_del(sub);
        if (p) LIB_FREE(p);
        spif_ustr_index(s, 'a'); spif_ustr_to_num(s, 10); (void)spif_ustr_find_from_ptr(s, (spif_charptr_t)"b");
        break;
    }
    case K_MBUFF: {
        long qx = o->na > 2 ? o->a[2] : 0, L = SPIF_MBUFF(x)->len;
        spif_mbuff_t m = SPIF_MBUFF(x), sub = qx ? spif_mbuff_subbuff(m, (spif_memidx_t)(-(1 + (L ? how % L : 0))), (spif_memidx_t)(-(qx % 3))) : spif_mbuff_subbuff(m, 0, 1);
        spif_byteptr_t p = qx ? spif_mbuff_subbuff_to_ptr(m, (spif_memidx_t)(-(1 + (L ? how % L : 0))), (spif_memidx_t)(-(qx % 3))) : spif_mbuff_subbuff_to_ptr(m, 0, 1);
        if (sub) spif_mbuff_del(sub);
        if (p) LIB_FREE(p);
        break;
    }
    default:
        if (IS_LIST(k)) {
            spif_obj_t pr = new_elem(how % 7);
            spif_obj_t *arr = SPIF_LIST_TO_ARRAY(x);
            spif_iterator_t it = SPIF_LIST_ITERATOR(x);
            SPIF_LIST_FIND(x, pr); SPIF_LIST_INDEX(x, pr); SPIF_LIST_GET(x, (spif_listidx_t)(o->na > 2 && o->a[2] ? -(1 + how % 4) : how % 4));
            while (SPIF_ITERATOR_HAS_NEXT(it)) SPIF_ITERATOR_NEXT(it);
            SPIF_ITERATOR_DEL(it);
            if (arr) LIB_FREE(arr);
            SPIF_OBJ_DEL(pr);
        } else if (IS_VEC(k)) {
            spif_obj_t pr = new_elem(how % 7);
            spif_obj_t *arr = SPIF_VECTOR_TO_ARRAY(x);
            spif_iterator_t it = SPIF_VECTOR_ITERATOR(x);
            SPIF_VECTOR_FIND(x, pr);
            while (SPIF_ITERATOR_HAS_NEXT(it)) SPIF_ITERATOR_NEXT(it);
            SPIF_ITERATOR_DEL(it);
            if (arr) LIB_FREE(arr);
            SPIF_OBJ_DEL(pr);
        } else if (IS_MAP(k)) {
            spif_obj_t pr = new_elem(how % 7);
            spif_list_t l;
            SPIF_MAP_GET(x, pr); SPIF_MAP_HAS_VALUE(x, pr);
            l = how % 3 == 0 ? SPIF_MAP_GET_KEYS(x, (spif_list_t)NULL) : how % 3 == 1 ? SPIF_MAP_GET_VALUES(x, (spif_list_t)NULL) : SPIF_MAP_GET_PAIRS(x, (spif_list_t)NULL);
            if (l) { SPIF_LIST_DEL(l); probe_hit("key_value_pair_list_deleted"); }
            SPIF_OBJ_DEL(pr);
        }
        break;
    }
    sh = SPIF_OBJ_SHOW(x, (spif_str_t)NULL, 1);
    if (sh) spif_str_del(sh);
}

static spif_class_t class_of_kind(int k)
{
    switch (k) {
    case K_STR: return SPIF_CLASS(SPIF_STRCLASS_VAR(str)); case K_USTR: return SPIF_CLASS(SPIF_STRCLASS_VAR(ustr)); case K_MBUFF: return SPIF_CLASS(SPIF_MBUFFCLASS_VAR(mbuff));
    case K_PAIR: return SPIF_CLASS_VAR(objpair); case K_TOK: return SPIF_CLASS_VAR(tok); case K_URL: return SPIF_CLASS_VAR(url); case K_REGEXP: return SPIF_CLASS_VAR(regexp);
    case K_LIST_A: return SPIF_CLASS(SPIF_LISTCLASS_VAR(array)); case K_LIST_L: return SPIF_CLASS(SPIF_LISTCLASS_VAR(linked_list)); case K_LIST_D: return SPIF_CLASS(SPIF_LISTCLASS_VAR(dlinked_list));
    case K_VEC_A: return SPIF_CLASS(SPIF_VECTORCLASS_VAR(array)); case K_VEC_L: return SPIF_CLASS(SPIF_VECTORCLASS_VAR(linked_list)); case K_VEC_D: return SPIF_CLASS(SPIF_VECTORCLASS_VAR(dlinked_list));
    case K_MAP_A: return SPIF_CLASS(SPIF_MAPCLASS_VAR(array)); case K_MAP_L: return SPIF_CLASS(SPIF_MAPCLASS_VAR(linked_list)); default: return SPIF_CLASS(SPIF_MAPCLASS_VAR(dlinked_list));
    }
}

/* ------------------------------------------------------------------ comparison laws (C05) */
static int sgn(spif_cmp_t c) { return c == SPIF_CMP_LESS ? -1 : c == SPIF_CMP_GREATER ? 1 : c == SPIF_CMP_EQUAL ? 0 : 99; }
static obuf_t last[NSLOT], cur;
static void comp_laws(void)
{
    int c[NSLOT][NSLOT];
    for (int i = 0; i < NSLOT; i++) for (int j = 0; j < NSLOT; j++) {
        c[i][j] = 100;
        if (!obj[i] || !obj[j] || okind[i] != okind[j]) continue;
        c[i][j] = sgn(SPIF_OBJ_COMP(obj[i], obj[j]));
        if (c[i][j] == 99) FAIL("MISMATCH", "comp-range", okind[i], "comp returned a value that is neither LESS, EQUAL nor GREATER");
    }
    for (int i = 0; i < NSLOT; i++) {
        if (!obj[i]) continue;
        if (c[i][i] != 0) FAIL("MISMATCH", "comp-reflexive", okind[i], "comp(a,a) returned %d", c[i][i]);
        if (sgn(SPIF_OBJ_COMP(obj[i], (spif_obj_t)NULL)) != 1) FAIL("MISMATCH", "comp-null", okind[i], "comp(a,NULL) is not GREATER");
        /* NULL on the left: the class's own comparison function, reached the way SPIF_OBJ_COMP reaches it, with no object in front */
        if (sgn((spif_cmp_t)(long)((SPIF_OBJ_CLASS(obj[i])->comp)((spif_obj_t)NULL, obj[i]))) != -1) FAIL("MISMATCH", "comp-null", okind[i], "comp(NULL,a) is not LESS");
        probe_hit("comp_null_first");
        for (int j = 0; j < NSLOT; j++) {
            if (c[i][j] == 100 || i == j) continue;
            probe_hit("comp_pair");
            /* texts and byte sequences compare EQUAL exactly when they are the same sequence -- spare capacity is not part of the value,
               and a sequence is never equal to a longer one that begins with it */
            if (okind[i] == K_STR || okind[i] == K_USTR || okind[i] == K_MBUFF) {
                int same = last[i].len == last[j].len && !memcmp(last[i].b, last[j].b, last[i].len);
                if (same != (c[i][j] == 0)) FAIL("MISMATCH", "comp-value", okind[i], "comp returned %d for {%.40s} and {%.40s}", c[i][j], last[i].b, last[j].b);
                if (same) probe_hit("comp_of_equal_values");
            }
            /* array lists and vectors compare element by element: EQUAL exactly when they hold equal elements in the same positions
               (placeholders included) -- two different sequences that compare EQUAL in both directions are not an order on values */
            if (okind[i] == K_LIST_A || okind[i] == K_VEC_A) {
                int same = last[i].len == last[j].len && !memcmp(last[i].b, last[j].b, last[i].len);
                if (same != (c[i][j] == 0)) FAIL("MISMATCH", "comp-value", okind[i], "comp returned %d for {%.60s} and {%.60s}", c[i][j], last[i].b, last[j].b);
                if (same) probe_hit("comp_of_equal_values");
            }
            if (c[i][j] != -c[j][i]) FAIL("MISMATCH", "comp-antisymmetric", okind[i], "comp(a,b)=%d but comp(b,a)=%d", c[i][j], c[j][i]);
            for (int l = 0; l < NSLOT; l++) {
                if (c[j][l] == 100 || c[i][l] == 100) continue;
                if (c[i][j] <= 0 && c[j][l] <= 0 && c[i][l] > 0) FAIL("MISMATCH", "comp-transitive", okind[i], "a<=b and b<=c but comp(a,c)=%d", c[i][l]);
                if (c[i][j] == 0 && c[j][l] == 0 && c[i][l] != 0) FAIL("MISMATCH", "comp-transitive", okind[i], "a==b and b==c but comp(a,c)=%d", c[i][l]);
            }
        }
    }
}

/* ------------------------------------------------------------------ executor */
extern int protosim_skip_ledger;
static int op_objkind[PLAN_MAXOPS];
static void del_obj(int s) { if (obj[s]) { SPIF_OBJ_DEL(obj[s]); obj[s] = NULL; } }

/* iterators held across operations: over a container of the pool, advanced now and then, deleted later -- possibly after the container */
#define NIT 2
static spif_iterator_t held[NIT];
static int held_slot[NIT];
static spif_obj_t held_subject[NIT];
static long held_stamp[NIT], slot_stamp[NSLOT];          /* a container that changed since the iterator was made is not walked any further */
static void exec_common(const plan_t *p)
{
    uint32_t base_serial;
    size_t base_live;
    memset(obj, 0, sizeof(obj));
    strelems = (int)plan_get(p, "strelems", 0);
    if (plan_get(p, "ns", 0)) {
        /* a name service that knows the words the URL texts use: the parser then allocates a port of its own */
        if (plan_get(p, "ns", 0) != 2) { simns_add_proto("tcp", 6); simns_add_proto("udp", 17); }
        else probe_hit("services_without_a_protocol_table");      /* ns == 2 (plans written after seeded round 14): the services are listed, the protocols they name are not -- the parse gives up half way, with components already built */
        simns_add_serv("http", "tcp", 80); simns_add_serv("mailto", "udp", 25); simns_add_serv("proto", "sctp", 7); simns_add_serv("a", "tcp", 65535);
    }
    vobj_reset();
    base_serial = sa_serial(); base_live = sa_live_count();
    memset(held, 0, sizeof(held)); memset(slot_stamp, 0, sizeof(slot_stamp));
    for (int s = 0; s < NSLOT; s++) observe(&last[s], s);
    for (int i = 0; i < p->nops; i++) {
        op_t *o = (op_t *)&p->ops[i];
        const char *k = o->kind;
        int s = (int)o->a[0], touched2 = -1;
        R.cur_op = o; R.cur_op_index = i; R.op_steps = 0;
        if (s < 0 || s >= NSLOT) sim_skip("bad-slot");
        sa_set_tag(i + 1);
        op_objkind[i] = obj[s] ? okind[s] : (!strcmp(k, "mk") && o->a[1] >= 0 && o->a[1] < K_NKINDS ? (int)o->a[1] : 0);
        if (!strcmp(k, "mk")) {
            int kind = (int)o->a[1];
            if (obj[s] || kind < 0 || kind >= K_NKINDS) continue;
            obj[s] = make(kind, o); okind[s] = kind;
            /* (a stream constructor may give up: C01/C07 judge when; a pattern that does not compile or a text that is no URL may be turned
               away at construction: neither property says such an object has to exist) */
            if (!obj[s] && !(o->na > 3 && o->a[3] > 0) && kind != K_REGEXP && kind != K_URL) FAIL("MISMATCH", "constructor", kind, "constructor returned NULL");
            if (!obj[s]) probe_hit("constructor_refused");
        } else if (!strcmp(k, "it_del")) {
            int q = (int)(o->a[1] % NIT);
            if (held[q]) { SPIF_ITERATOR_DEL(held[q]); held[q] = NULL; probe_hit(obj[held_slot[q]] == held_subject[q] ? "iterator_deleted_before_its_container" : "iterator_deleted_after_its_container"); }
            continue;
        } else if (!obj[s]) continue;
        else if (!strcmp(k, "it_new")) {
            int q = (int)(o->a[1] % NIT);
            if (!IS_CONT(okind[s]) || held[q]) continue;
            held[q] = IS_LIST(okind[s]) ? SPIF_LIST_ITERATOR(obj[s]) : IS_VEC(okind[s]) ? SPIF_VECTOR_ITERATOR(obj[s]) : SPIF_MAP_ITERATOR(obj[s]);
            held_slot[q] = s; held_subject[q] = obj[s]; held_stamp[q] = slot_stamp[s];
            probe_hit("iterator_held");
        } else if (!strcmp(k, "it_next")) {
            int q = (int)(o->a[1] % NIT);
            /* only while its container is still the same, unchanged object */
            if (held[q] && obj[held_slot[q]] == held_subject[q] && held_stamp[q] == slot_stamp[held_slot[q]] && SPIF_ITERATOR_HAS_NEXT(held[q])) (void)SPIF_ITERATOR_NEXT(held[q]);
        }
        else if (!strcmp(k, "mut")) mutate(s, o);
        else if (!strcmp(k, "query")) query(s, o);
        else if (!strcmp(k, "dup")) {
            int d = (int)o->a[1];
            spif_obj_t c;
            spif_classname_t t1, t2;
            if (d < 0 || d >= NSLOT || obj[d]) continue;
            /* a list that has just been read by position (an implementation may remember where the last look-up ended) */
            if (IS_LIST(okind[s]) && o->na > 2 && o->a[2]) { long n = (long)SPIF_LIST_COUNT(obj[s]); if (n) (void)SPIF_LIST_GET(obj[s], (spif_listidx_t)((o->a[2] - 1) % n)); }
            c = SPIF_OBJ_DUP(obj[s]);
            if (!c) FAIL("MISMATCH", "dup-null", okind[s], "dup returned NULL");
            if (c == obj[s]) FAIL("MISMATCH", "dup-same-object", okind[s], "dup returned the original object");
            obj[d] = c; okind[d] = okind[s]; touched2 = d;
            if (!sa_readable(c, sizeof(void *))) FAIL("INVARIANT", "object-block", okind[s], "dup result is not a live block");
            if (SPIF_OBJ_CLASS(c) != SPIF_OBJ_CLASS(obj[s])) FAIL("MISMATCH", "dup-class", okind[s], "dup result is of a different class");
            t1 = SPIF_OBJ_TYPE(obj[s]); t2 = SPIF_OBJ_TYPE(c);
            if (t1 != t2) FAIL("MISMATCH", "type", okind[s], "type() of the copy differs from type() of the original");
            if (!t1 || strcmp((const char *)t1, (const char *)SPIF_OBJ_CLASS(obj[s])->classname)) FAIL("MISMATCH", "type-names-class", okind[s], "type() does not return the class's name string");
            if (IS_LIST(okind[s]) && o->na > 2 && o->a[2] && SPIF_OBJ_CLASS(c) == SPIF_OBJ_CLASS(obj[s])) {
                /* ... and its copy read the same way, from the far end down: what a position of the copy hands out is the copy's own
                   element, never the original's */
                long n = (long)SPIF_LIST_COUNT(c);
                for (long j = n - 1; j >= 0; j--) {
                    spif_obj_t ec = SPIF_LIST_GET(c, (spif_listidx_t)j), eo = SPIF_LIST_GET(obj[s], (spif_listidx_t)j);
                    if (ec && !sa_readable(ec, sizeof(void *))) FAIL("INVARIANT", "dangling-element", okind[s], "position %ld of a fresh copy hands out something that is not a live object", j);
                    if (ec && ec == eo) FAIL("MISMATCH", "dup-shares-elements", okind[s], "position %ld of a fresh copy hands out the original's element object", j);
                }
                probe_hit("copy_read_by_position");
            }
            if (mode_c05) {
                observe(&cur, d);
                if (cur.len != last[s].len || memcmp(cur.b, last[s].b, cur.len)) FAIL("MISMATCH", "dup-value", okind[s], "copy observes as {%.80s} but the original as {%.80s}", cur.b, last[s].b);
                if (IS_CONT(okind[s]) && !strelems) {
                    static obuf_t oi, ci;
                    obs_identity = 1; observe(&oi, s); observe(&ci, d); obs_identity = 0;
                    if (ci.len != oi.len || memcmp(ci.b, oi.b, ci.len)) FAIL("MISMATCH", "dup-value", okind[s], "element by element (key#which) the copy observes as {%.80s} but the original as {%.80s}", ci.b, oi.b);
                    probe_hit("copy_compared_element_by_element");
                }
                if (sgn(SPIF_OBJ_COMP(obj[s], c)) != 0 && okind[s] != K_LIST_D && okind[s] != K_VEC_D && okind[s] != K_MAP_D && okind[s] != K_LIST_L && okind[s] != K_VEC_L && okind[s] != K_MAP_L)
                    FAIL("MISMATCH", "dup-compares-equal", okind[s], "a fresh copy does not compare EQUAL to its original");
            }
            probe_hit("dup");
        } else if (!strcmp(k, "donereinit")) {
            if (!SPIF_OBJ_DONE(obj[s])) FAIL("MISMATCH", "done", okind[s], "done returned FALSE");
            probe_hit("done");
            observe(&cur, s);                      /* must observe as a consistent (empty) object */
            if (IS_CONT(okind[s])) { if (!strstr(cur.b, "n=0[")) FAIL("MISMATCH", "done-not-empty", okind[s], "after done() the container observes as {%.60s}", cur.b); for (long q = 0; q < o->a[1] % 4; q++) cont_add(obj[s], okind[s], q, o->a[1] + q); }
            else if (okind[s] == K_STR) { if (SPIF_STR(obj[s])->len) FAIL("MISMATCH", "done-not-empty", okind[s], "string has length after done()"); spif_str_init_from_ptr(SPIF_STR(obj[s]), (spif_charptr_t)"again"); }
            else if (okind[s] == K_MBUFF) { spif_mbuff_init_from_ptr(SPIF_MBUFF(obj[s]), (spif_byteptr_t)"again", 5); }
            else if (okind[s] == K_TOK) { spif_tok_init_from_ptr(SPIF_TOK(obj[s]), (spif_charptr_t)"a b"); }
            else if (okind[s] == K_URL) { spif_url_init_from_ptr(SPIF_URL(obj[s]), (spif_charptr_t)"http://again/x"); }
            else if (okind[s] == K_PAIR) { spif_obj_t a = new_elem(1), b = new_elem(2); spif_objpair_init_from_both(SPIF_OBJPAIR(obj[s]), a, b); SPIF_OBJ_DEL(a); SPIF_OBJ_DEL(b); }
            else if (okind[s] == K_REGEXP) { spif_regexp_init_from_ptr(SPIF_REGEXP(obj[s]), (spif_charptr_t)"a+"); }
            else if (okind[s] == K_USTR) { spif_ustr_init_from_ptr((spif_ustr_t)obj[s], (spif_charptr_t)"again"); }
        } else if (!strcmp(k, "del")) { del_obj(s); probe_hit("del"); }
        else continue;
        op_objkind[i] = okind[s];
        if (strcmp(k, "query") && strncmp(k, "it_", 3) && strcmp(k, "dup")) slot_stamp[s]++;
        tr_printf("%s slot%d kind=%s", k, s, obj[s] ? kind_name[okind[s]] : "-");
        /* independence: an operation on one object never changes what any other object observes as */
        for (int q = 0; q < NSLOT; q++) {
            observe(&cur, q);
            if (q != s && q != touched2 && (cur.len != last[q].len || memcmp(cur.b, last[q].b, cur.len)))
                FAIL("MISMATCH", "independence", okind[q], "%s on slot %d changed what slot %d observes as: {%.70s} -> {%.70s}", k, s, q, last[q].b, cur.b);
            /* copying and querying an object leave the object itself as it was, too */
            if (q == s && (!strcmp(k, "dup") || !strcmp(k, "query")) && (cur.len != last[q].len || memcmp(cur.b, last[q].b, cur.len)))
                FAIL("MISMATCH", "source-changed", okind[q], "%s changed what its own subject observes as: {%.70s} -> {%.70s}", k, last[q].b, cur.b);
            ob_reset(&last[q]); ob_add(&last[q], cur.b, cur.len);
            tr_bytes(cur.b, cur.len);
        }
        if (mode_c05) comp_laws();
        if (mode_c05) {
            /* type() names the object's class: the class its kind was created as, whatever constructor or history it came from */
            for (int q = 0; q < NSLOT; q++) {
                spif_class_t want;
                spif_classname_t tn;
                if (!obj[q]) continue;
                want = class_of_kind(okind[q]);
                if (SPIF_OBJ_CLASS(obj[q]) != want) FAIL("MISMATCH", "class", okind[q], "after %s the object in slot %d carries the class \"%s\", it was created as \"%s\"", k, q, (const char *)SPIF_OBJ_CLASS(obj[q])->classname, (const char *)want->classname);
                tn = SPIF_OBJ_TYPE(obj[q]);
                if (!tn || strcmp((const char *)tn, (const char *)want->classname)) FAIL("MISMATCH", "type-names-class", okind[q], "type() says \"%s\" for an object created as \"%s\"", tn ? (const char *)tn : "(null)", (const char *)want->classname);
            }
            probe_hit("class_checked");
        }
        tr_u64("alloc", sa_live_digest());
    }
    R.cur_op = NULL; R.cur_op_index = p->nops;
    if (held[0] && plan_get(p, "iters_last", 0)) { for (int s = 0; s < NSLOT; s++) del_obj(s); }      /* containers first, their iterators afterwards */
    for (int q = 0; q < NIT; q++) if (held[q]) { SPIF_ITERATOR_DEL(held[q]); held[q] = NULL; }
    for (int s = 0; s < NSLOT; s++) del_obj(s);
    /* conservation: once every object the program created or was handed is deleted, the heap holds what it held before */
    if (!protosim_skip_ledger && (sa_count_live_since(base_serial) || sa_live_count() != base_live)) {
        char buf[300];
        size_t n = sa_report_live_since(base_serial, buf, sizeof(buf));
        int tag = 0;
        sscanf(strstr(buf, "tag") ? strstr(buf, "tag") + 3 : "0", "%d", &tag);
        if (tag > 0 && tag <= p->nops) { R.cur_op = (op_t *)&p->ops[tag - 1]; R.cur_op_index = tag - 1; }
        snprintf(failbuf, sizeof(failbuf), "LEAK(%s)", tag > 0 && tag <= p->nops ? kind_name[op_objkind[tag - 1]] : "?");
        sim_fail(failbuf, "%zu block(s) still allocated after every object was deleted (allocated during op #%d): %s", n, tag, buf);
    }
    if (vobj_live) sim_fail("LEAK(elements)", "%ld element objects were never deleted", vobj_live);
}
int protosim_skip_ledger;
void protosim_exec_program(const plan_t *p) { mode_c05 = 0; protosim_skip_ledger = 1; exec_common(p); protosim_skip_ledger = 0; }
static void exec_c05(const plan_t *p) { mode_c05 = 1; exec_common(p); }
static void exec_c06(const plan_t *p) { mode_c05 = 0; exec_common(p); }

/* ------------------------------------------------------------------ generator */
static const char *texts[] = { "", "a", "abc", "  padded  ", "Hello World", "x=1 y=2", "a+b*", "^ab.c$", "[0-9]+", "one two 'three four' five",
    "http://user:pw@host.example:8080/path/to?q=1", "mailto:foo@bar.com?Subject=Hi", "/just/a/path", "proto:rest", "a:b:c::d", "UPPER lower",
    "a(b", "[z-a]", "*x", "(?<n>a)|b{2,1}", "say \"hi there\" now", "it's open", "back\\slash\\ x", "tab\tsep\tx", "a,b;c", "   ", "\"\"", "user@host:99?x", "//h/p?q#f", ":::", "@", "?",
    "ends in escape\\", "\\", "a,b\\", "open quote at end '", "x \\\"", "sep at end,", "\\,", "'", "line one\nline two", "\nstarts with a newline", "ends with a newline\n", "es\\cape in\\ side", "'q\\'uoted' \"d\\\"q\"", "http://host.example/", "a://b",
    /* components that are there but empty, next to ones that are not (a port of no digits behind a service the name service knows, a password of no characters, a user without a host) */
    "http://host.example:/index.html", "http://h:", "a://u:p@b:?q", "http://user:@host:/", "mailto::", "http://:80", "http://@h", "proto://h:/p?", "http://u:@:" };
static void gen_common(plan_t *p, rng_t *r, int c05)
{
    int nops = rng_range(r, 4, (c05 ? 30 : 60) * sim_tier_scale()), kinds[NSLOT], ex[NSLOT] = { 0 }, focus = (int)rng_below(r, K_NKINDS);
    plan_knob(p, "strelems", rng_chance(r, 1, 4));
    plan_knob(p, "alloc.fill", rng_range(r, 0, 4));
    plan_knob(p, "alloc.zero", rng_chance(r, 1, 4)); plan_knob(p, "alloc.realloc0", rng_chance(r, 1, 4));      /* the two readings ISO C allows for a request of no bytes */
    plan_knob(p, "alloc.realloc", rng_range(r, 0, 2));
    plan_knob(p, "alloc.reuse", rng_range(r, 0, 2));
    plan_knob(p, "alloc.place", rng_chance(r, 1, 4));
    plan_knob(p, "iters_last", rng_chance(r, 1, 2));
    plan_knob(p, "ns", rng_chance(r, 1, 3) ? rng_range(r, 1, 2) : 0);
    for (int i = 0; i < nops; i++) {
        int s = (int)rng_below(r, NSLOT), k = (int)rng_below(r, 100);
        op_t *o;
        if (!ex[s]) {
            /* comparison laws need several objects of one class: bias kinds towards a per-run focus */
            int kind = rng_chance(r, 1, 2) ? focus : (int)rng_below(r, K_NKINDS);
            const char *t = texts[rng_below(r, sizeof(texts) / sizeof(texts[0]))];
            if ((kind == K_STR || kind == K_USTR || kind == K_MBUFF || kind == K_TOK) && rng_chance(r, 1, 4)) {
                /* stream constructors: empty sources, sources positioned at their end, short reads, EINTR, hard errors */
                static const int outs[] = { FO_SHORT, FO_SHORT, FO_EINTR, FO_EINTR, FO_EIO, FO_FULL };
                long src = rng_range(r, 1, 4), big = rng_chance(r, 1, 5);
                size_t len = rng_chance(r, 1, 5) ? 0 : big ? (size_t)rng_range(r, 4090, 9000) : strlen(t);
                long pos = rng_chance(r, 1, 3) ? (long)len : rng_chance(r, 1, 3) ? (long)rng_below(r, (uint32_t)len + 1) : 0;
                int nf = rng_chance(r, 1, 2) ? rng_range(r, 1, 3) : 0;
                o = plan_op(p, 0, "mk", 5, (long)s, (long)kind, (long)rng_below(r, 1000), src, pos);
                if (big) { char *b = malloc(len + 1); for (size_t q = 0; q < len; q++) b[q] = (char)('a' + q % 23); op_str(o, b, len); free(b); }
                else op_str(o, t, len);
                for (int q = 0; q < nf; q++) { int out = outs[rng_below(r, 6)]; op_fault(o, FAULT(FC_READ, out, out == FO_SHORT ? rng_range(r, 1, 100) : 0)); }
            } else {
                o = plan_op(p, 0, "mk", 3, (long)s, (long)kind, (long)rng_below(r, 1000));
                if (kind == K_MBUFF && rng_chance(r, 1, 3)) { static const char bin[] = "\0a\0b\xff\x80\0z"; op_str(o, bin, 1 + rng_below(r, 8)); }       /* bytes a C string cannot hold */
                else op_str(o, t, strlen(t));
            }
            ex[s] = 1; kinds[s] = kind;
            continue;
        }
        if (k < 35) {
            const char *t = texts[rng_below(r, sizeof(texts) / sizeof(texts[0]))];
            if (rng_chance(r, 1, 4)) o = plan_op(p, 0, "mut", 3, (long)s, (long)rng_below(r, 1000), (long)rng_range(r, 1, kinds[s] == K_URL ? 9 : kinds[s] == K_TOK ? 6 : IS_MAP(kinds[s]) ? 11 : 8));
            else if (rng_chance(r, 1, 4)) o = plan_op(p, 0, "mut", 4, (long)s, (long)rng_below(r, 1000), 0L, (long)rng_range(r, 1, 8));
            else if ((kinds[s] == K_STR || kinds[s] == K_USTR || kinds[s] == K_MBUFF) && rng_chance(r, 1, 4)) o = plan_op(p, 0, "mut", 5, (long)s, (long)rng_below(r, 1000), 0L, 0L, (long)rng_range(r, 1, 15));
            else o = plan_op(p, 0, "mut", 2, (long)s, (long)rng_below(r, 1000));
            if (kinds[s] == K_MBUFF && rng_chance(r, 1, 3)) { static const char bin[] = "a\0b\xff\x80\0\0z"; op_str(o, bin, 1 + rng_below(r, 8)); }       /* bytes a C string cannot hold */
            else op_str(o, t, strlen(t));
        }
        else if (k < 50) { if (rng_chance(r, 1, 3)) plan_op(p, 0, "query", 3, (long)s, (long)rng_below(r, 1000), (long)rng_range(r, 1, 6)); else plan_op(p, 0, "query", 2, (long)s, (long)rng_below(r, 1000)); }
        else if (k < 72) { int d = (int)rng_below(r, NSLOT); if (!ex[d]) { if (rng_chance(r, 1, 2)) plan_op(p, 0, "dup", 3, (long)s, (long)d, (long)rng_range(r, 1, 30)); else plan_op(p, 0, "dup", 2, (long)s, (long)d); ex[d] = 1; kinds[d] = kinds[s]; } }
        else if (k < 80) plan_op(p, 0, "donereinit", 2, (long)s, (long)rng_below(r, 1000));
        else if (k < 82) { int w = (int)rng_below(r, 3); plan_op(p, 0, w == 0 ? "it_new" : w == 1 ? "it_next" : "it_del", 2, (long)s, (long)rng_below(r, 2)); }
        else { plan_op(p, 0, "del", 1, (long)s); ex[s] = 0; }
    }
    (void)kinds;
}
void protosim_gen_program(plan_t *p, rng_t *r) { gen_common(p, r, 0); }
static void gen_c05(plan_t *p, rng_t *r) { gen_common(p, r, 1); }
static void gen_c06(plan_t *p, rng_t *r) { gen_common(p, r, 0); }

const engine_t protosim_c05_engine = { "objsim-protocol", "C05", gen_c05, exec_c05 };
const engine_t protosim_c06_engine = { "objsim-ownership", "C06", gen_c06, exec_c06 };
