/* trivial workload used to prove the core deterministic: random allocator traffic */
#include "sim.h"
#include <string.h>

static void gen(plan_t *p, rng_t *r)
{
    int n = rng_range(r, 3, 30);
    plan_knob(p, "alloc.fill", rng_range(r, 0, 4));
    plan_knob(p, "alloc.zero", rng_chance(r, 1, 4)); plan_knob(p, "alloc.realloc0", rng_chance(r, 1, 4));      /* the two readings ISO C allows for a request of no bytes */
    plan_knob(p, "alloc.realloc", rng_range(r, 0, 2));
    plan_knob(p, "alloc.reuse", rng_range(r, 0, 2));
    plan_knob(p, "alloc.place", rng_range(r, 0, 1));
    for (int i = 0; i < n; i++) {
        int k = rng_range(r, 0, 2);
        plan_op(p, 0, k == 0 ? "malloc" : k == 1 ? "realloc" : "free", 2, (long)rng_range(r, 0, 7), (long)rng_range(r, 0, 300));
    }
}
static void exec(const plan_t *p)
{
    void *slot[8] = { 0 }; size_t sz[8] = { 0 };
    for (int i = 0; i < p->nops; i++) {
        op_t *o = (op_t *)&p->ops[i];
        int s = (int)(o->a[0] & 7); size_t n = (size_t)o->a[1];
        R.cur_op = o; R.cur_op_index = i; R.op_steps = 0;
        if (!strcmp(o->kind, "malloc")) { if (slot[s]) sim_free(slot[s]); slot[s] = sim_malloc(n); sz[s] = n; if (n) memset(slot[s], i, n); }
        else if (!strcmp(o->kind, "realloc")) {
            size_t keep = sz[s] < n ? sz[s] : n;
            unsigned char first = keep ? *(unsigned char *)slot[s] : 0;
            if (!n) { sim_free(slot[s]); slot[s] = NULL; sz[s] = 0; }
            else {
                slot[s] = sim_realloc(slot[s], n); sz[s] = n;
                if (keep && *(unsigned char *)slot[s] != first) sim_fail("MISMATCH(realloc-content)", "content lost");
            }
        } else { sim_free(slot[s]); slot[s] = NULL; sz[s] = 0; }
        sa_check();
        tr_printf("%s %d %zu -> %llu live=%zu", o->kind, s, n, (unsigned long long)sa_offset(slot[s]), sa_live_count());
    }
    for (int s = 0; s < 8; s++) sim_free(slot[s]);
    if (sa_live_count()) sim_fail("LEAK", "%zu blocks", sa_live_count());
}
const engine_t selftest_engine = { "selftest", "T00", gen, exec };
