/* netsim: C19 -- local sockets carry bytes intact under short I/O and never leak descriptors.
 * Server and client tasks (cooperative, seeded schedule) drive the real socket.c/str.c over the
 * simulated AF_UNIX layer; every simulated call takes its outcome from the op's fault script. */
#define _GNU_SOURCE
#include "sim.h"
#include "simfd.h"
#include "simtask.h"
#include <errno.h>
#include "libast_h.h"
#include <string.h>
#include <stdlib.h>

#define NSLOT 4
#define MAXCONN 24
typedef struct { unsigned char *b; size_t len, cap; } buf_t;
static struct {
    buf_t stream[2];          /* bytes offered by role r (0 = connecting side, 1 = accepted side) */
    size_t rcvd[2];           /* bytes returned by recv on the endpoint with role r */
    int broken[2];            /* a send by role r failed after a hard error */
} conn[MAXCONN];
static spif_socket_t sock[TASK_MAX][NSLOT];
static const plan_t *P;
static int hard_faults_enabled;

static void buf_add(buf_t *b, const void *p, size_t n)
{
    if (b->len + n > b->cap) { b->cap = (b->len + n) * 2 + 64; b->b = realloc(b->b, b->cap); }
    memcpy(b->b + b->len, p, n);
    b->len += n;
}

/* ------------------------------------------------------------------ generator */
static const int payload_sizes[] = { 1, 2, 3, 62, 255, 1023, 1024, 1025, 4095, 4096, 4097, 8191, 8192, 8193, 12288, 16385, 20000 };
#define NPAY ((int)(sizeof(payload_sizes) / sizeof(payload_sizes[0])))

static void make_payload(op_t *o, int start, size_t n)
{
    unsigned char *b = malloc(n + 1);
    for (size_t i = 0; i < n; i++) b[i] = (unsigned char)(1 + (start + i) % 255);
    op_str(o, b, n);
    free(b);
}
static void gen_faults(op_t *o, rng_t *r, int call, int maxn, int allow_eagain, int hard)
{
    int n = rng_range(r, 0, maxn);
    static const int bursts[] = { 2, 3, 5, 98, 99, 100, 101, 130 };       /* the same answer that many times in a row (the send back-off carries into seconds at 100) */
    for (int i = 0; i < n; i++) {
        int k = (int)rng_below(r, 100), f;
        if (k < 30) f = FAULT(call, FO_FULL, 0);
        else if (k < 65) {
            static const int lims[] = { 1, 2, 3, 7, 62, 100, 1000, 4094, 4095, 4096, 4097 };      /* (reads ask for 4096 bytes at a time: only limits below that shorten them) */
            f = FAULT(call, FO_SHORT, lims[rng_below(r, call == FC_READ ? 9 : 11)]);
        } else if (k < 85) f = FAULT(call, FO_EINTR, rng_chance(r, 1, 12) ? bursts[rng_below(r, 8)] : 0);
        else if (k < 95 && allow_eagain) f = FAULT(call, FO_EAGAIN, rng_chance(r, 1, 10) ? bursts[rng_below(r, 8)] : 0);
        else if (hard && k >= 97) f = FAULT(call, FO_EIO, 0);
        else f = FAULT(call, FO_SHORT, 1 + (int)rng_below(r, call == FC_READ ? 4095 : 5000));
        op_fault(o, f);
    }
}

/* deterministic sweep, three passes:
   A  every read script over {FULL,SHORT,EINTR}^<=3 and every write script over {FULL,SHORT,EINTR,EAGAIN}^<=3, 8 payload sizes, a
      receive queue that holds everything;
   B  the same scripts with a receive queue of 1 kB, so that every transfer above that also meets the kernel's own flow control
      (blocking senders park, non-blocking ones get EAGAIN by themselves and go through the back-off) on top of the scripted answers;
   C  every script of length 4 over the same alphabets (81 + 256 scripts), queue as in A. */
#define SWEEP_SIZES 8
static const int sweep_sizes[SWEEP_SIZES] = { 5, 100, 4096, 4097, 8192, 9000, 16385, 20000 };
#define SWEEP_A ((3 + 9 + 27) * SWEEP_SIZES + (4 + 16 + 64) * SWEEP_SIZES)
#define SWEEP_C ((81 + 256) * SWEEP_SIZES)
static int sweep_total(void) { return 2 * SWEEP_A + SWEEP_C; }
static void gen_sweep(plan_t *p, int idx)
{
    int pass = idx < SWEEP_A ? 0 : idx < 2 * SWEEP_A ? 1 : 2;
    int readside, base, call, size, code, len, script[4];
    op_t *o;
    if (pass == 1) idx -= SWEEP_A;
    if (pass == 2) {
        idx -= 2 * SWEEP_A;
        readside = idx < 81 * SWEEP_SIZES;
        if (!readside) idx -= 81 * SWEEP_SIZES;
        base = readside ? 3 : 4; call = readside ? FC_READ : FC_WRITE;
        size = sweep_sizes[idx % SWEEP_SIZES];
        idx /= SWEEP_SIZES;
        len = 4; code = idx;
    } else {
        readside = idx < (3 + 9 + 27) * SWEEP_SIZES; base = readside ? 3 : 4; call = readside ? FC_READ : FC_WRITE;
        if (!readside) idx -= (3 + 9 + 27) * SWEEP_SIZES;
        size = sweep_sizes[idx % SWEEP_SIZES];
        idx /= SWEEP_SIZES;
        if (idx < base) { len = 1; code = idx; }
        else if (idx < base + base * base) { len = 2; code = idx - base; }
        else { len = 3; code = idx - base - base * base; }
    }
    for (int i = 0; i < len; i++) { script[i] = code % base; code /= base; }
    plan_knob(p, "sweep", 1 + pass);
    plan_knob(p, "sock.rxcap", pass == 1 ? 1024 : 65536);
    plan_knob(p, "alloc.realloc", REALLOC_MOVE);
    plan_knob(p, "ntasks", 2);
    plan_op(p, 0, "new", 2, 0L, 0L); op_str(&p->ops[p->nops - 1], "unix:/tmp/s0", 12);
    plan_op(p, 0, "open", 1, 0L);
    plan_op(p, 1, "new", 2, 0L, 1L); op_str(&p->ops[p->nops - 1], "unix:/tmp/s0", 12);
    plan_op(p, 1, "open", 1, 0L);
    if (!readside) plan_op(p, 1, "nbio", 2, 0L, 1L);           /* EAGAIN is only legal on a non-blocking sender */
    o = plan_op(p, 1, "send", 1, 0L); make_payload(o, 7, (size_t)size);
    if (!readside) for (int i = 0; i < len; i++) op_fault(o, FAULT(call, script[i], script[i] == FO_SHORT ? (i == 0 ? 3 : size / 3 + 1) : 0));
    plan_op(p, 1, "del", 1, 0L);
    plan_op(p, 0, "accept", 2, 0L, 1L);
    o = plan_op(p, 0, "recv", 1, 1L);
    if (readside) for (int i = 0; i < len; i++) op_fault(o, FAULT(call, script[i], script[i] == FO_SHORT ? (i == 0 ? 3 : size / 3 + 1) : 0));
    plan_op(p, 0, "del", 1, 1L);
    plan_op(p, 0, "del", 1, 0L);
    /* server first until it listens, then the client as far as it gets, then whoever can run */
    for (int i = 0; i < 12; i++) p->sched[p->nsched++] = 0;
}

static void gen_tail(plan_t *p, rng_t *r, int task, int hard)
{
    /* after the scripted life cycle: a few operations in no particular order -- reopen after close, send or receive on a closed
       or never opened object, a copy of the listener, accept on a closed listener, delete in any order */
    int n = rng_chance(r, 1, 3) ? rng_range(r, 1, 6) : 0;
    for (int i = 0; i < n; i++) {
        int s = (int)rng_below(r, NSLOT), d = (int)rng_below(r, NSLOT), k = (int)rng_below(r, 8);
        op_t *o;
        switch (k) {
        case 0: plan_op(p, task, "open", 1, (long)s); break;
        case 1: o = plan_op(p, task, "close", 1, (long)s); if (rng_chance(r, 1, 4)) op_fault(o, FAULT(FC_CLOSE, FO_EINTR, 0)); break;
        case 2: if (d != s) plan_op(p, task, "dup", 2, (long)s, (long)d); break;
        case 3: plan_op(p, task, rng_chance(r, 1, 3) ? "done" : "del", 1, (long)s); break;
        case 4: o = plan_op(p, task, "send", 1, (long)s); make_payload(o, 200 + i, (size_t)payload_sizes[rng_below(r, 4)]); gen_faults(o, r, FC_WRITE, 3, 0, hard); break;
        case 5: if (rng_chance(r, 1, 2)) { plan_op(p, task, "nbio", 2, (long)s, 1L); o = plan_op(p, task, "recv", 1, (long)s); gen_faults(o, r, FC_READ, 3, 1, hard); } break;
        case 6: if (d != 0) plan_op(p, task, "accept", 2, 0L, (long)d); break;
        default: plan_op(p, task, "checkio", 1, (long)s); break;
        }
    }
}

static void gen(plan_t *p, rng_t *r)
{
    int nclients, hard, srv_nbio, nsched;
    static const int rxcaps[] = { 512, 1024, 4096, 4096, 8192, 65536, 262144 };
    if ((int)(p->seed % 1000000) < sweep_total()) { gen_sweep(p, (int)(p->seed % 1000000)); return; }
    nclients = rng_chance(r, 1, 6) ? rng_range(r, 4, 5) : rng_range(r, 1, 3);      /* up to six parties */
    hard = rng_chance(r, 1, 5);
    srv_nbio = rng_chance(r, 1, 3);
    plan_knob(p, "ntasks", 1 + nclients);
    plan_knob(p, "hard", hard);
    if (rng_chance(r, 1, 8)) plan_knob(p, "fd.base", 0);                        /* standard descriptors closed: socket() may answer 0 */
    if (rng_chance(r, 1, 6)) plan_knob(p, "select.eintr", rng_range(r, 1, 4));      /* a back-off wait is interrupted by a signal */
    plan_knob(p, "sock.rxcap", rxcaps[rng_below(r, 7)]);
    plan_knob(p, "alloc.fill", rng_range(r, 0, 4));
    plan_knob(p, "alloc.zero", rng_chance(r, 1, 4)); plan_knob(p, "alloc.realloc0", rng_chance(r, 1, 4));      /* the two readings ISO C allows for a request of no bytes */
    plan_knob(p, "alloc.realloc", rng_range(r, 0, 2));
    plan_knob(p, "alloc.reuse", rng_range(r, 0, 2));
    /* server */
    {
        const char *url = rng_chance(r, 1, 2) ? "unix:/tmp/s0" : "/tmp/s0";
        op_t *o = plan_op(p, 0, "new", 2, 0L, 0L);
        op_str(o, url, strlen(url));
        if (rng_chance(r, 1, 12)) plan_op(p, 0, "del", 1, 0L), o = plan_op(p, 0, "new", 2, 0L, 0L), op_str(o, url, strlen(url));
        if (rng_chance(r, 1, 12)) {
            /* a listener object whose open fails at bind (address taken) or listen, possibly copied, then deleted:
               its descriptor must go with it */
            int how = (int)rng_below(r, 3);
            o = plan_op(p, 0, "new", 2, 3L, 0L); op_str(o, url, strlen(url));
            o = plan_op(p, 0, "open", 1, 3L);
            if (how == 0) op_fault(o, FAULT(FC_BIND, rng_chance(r, 1, 2) ? FO_EADDRINUSE : FO_EACCES, 0));
            else if (how == 1) op_fault(o, FAULT(FC_LISTEN, FO_EADDRINUSE, 0));
            if (rng_chance(r, 1, 3)) plan_op(p, 0, "open", 1, 3L);            /* retry */
            if (rng_chance(r, 1, 3)) { plan_op(p, 0, "dup", 2, 3L, 2L); plan_op(p, 0, "del", 1, 2L); }
            plan_op(p, 0, "del", 1, 3L);
        }
        o = plan_op(p, 0, "open", 1, 0L);
        if (rng_chance(r, 1, 25)) op_fault(o, FAULT(FC_SOCKET, FO_EMFILE, 0));
        else if (rng_chance(r, 1, 30)) op_fault(o, FAULT(FC_BIND, rng_chance(r, 1, 2) ? FO_EADDRINUSE : FO_EACCES, 0));
        else if (rng_chance(r, 1, 30)) op_fault(o, FAULT(FC_LISTEN, FO_EADDRINUSE, 0));
        if (rng_chance(r, 1, 10)) {
            /* a second listener on the same path while the first may be bound: EADDRINUSE from the kernel itself */
            o = plan_op(p, 0, "new", 2, 3L, 0L); op_str(o, url, strlen(url));
            plan_op(p, 0, "open", 1, 3L);
            if (rng_chance(r, 1, 3)) { plan_op(p, 0, "dup", 2, 3L, 2L); plan_op(p, 0, "del", 1, 2L); }
            plan_op(p, 0, "del", 1, 3L);
        }
        if (srv_nbio) plan_op(p, 0, "nbio", 2, 0L, 1L);
        if (rng_chance(r, 1, 10)) plan_op(p, 0, "checkio", 1, 0L);
        for (int c = 0; c < nclients; c++) {
            int slot = 1 + c % 2, nrecv = rng_range(r, 0, 3);
            o = plan_op(p, 0, "accept", 2, 0L, (long)slot);
            if (rng_chance(r, 1, 12)) op_fault(o, FAULT(FC_OPEN, FO_EMFILE, 0));        /* the dup() inside spif_socket_accept fails */
            if (rng_chance(r, 1, 12)) op_fault(o, FAULT(FC_CLOSE, FO_EINTR, 0));        /* a close() inside it is interrupted */
            if (rng_chance(r, 1, 8)) {
                static const int outs[] = { FO_EINTR, FO_EMFILE, FO_ECONNABORTED, FO_EAGAIN };
                op_fault(o, FAULT(FC_ACCEPT, outs[rng_below(r, 4)], 0));
                if (rng_chance(r, 1, 2)) { o = plan_op(p, 0, "accept", 2, 0L, (long)slot); }
            }
            if (rng_chance(r, 1, 10)) { o = plan_op(p, 0, "dup", 2, (long)slot, 3L); if (rng_chance(r, 1, 6)) op_fault(o, FAULT(FC_OPEN, FO_EMFILE, 0)); plan_op(p, 0, "del", 1, rng_chance(r, 1, 2) ? (long)slot : 3L); if (rng_chance(r, 1, 2)) plan_op(p, 0, "recv", 1, 3L); }
            for (int k = 0; k < nrecv; k++) {
                o = plan_op(p, 0, "recv", 1, (long)slot);
                gen_faults(o, r, FC_READ, rng_chance(r, 1, 2) ? 4 : 10, srv_nbio, hard);
            }
            if (rng_chance(r, 1, 8)) { o = plan_op(p, 0, "send", 1, (long)slot); make_payload(o, 100 + c, (size_t)payload_sizes[rng_below(r, 8)]); gen_faults(o, r, FC_WRITE, 3, 0, 0); }
            if (rng_chance(r, 1, 6)) { o = plan_op(p, 0, "close", 1, (long)slot); if (rng_chance(r, 1, 3)) op_fault(o, FAULT(FC_CLOSE, FO_EINTR, 0)); }
            if (rng_chance(r, 1, 6)) plan_op(p, 0, "done", 1, (long)slot);          /* emptied first, deleted (or not) afterwards */
            if (rng_chance(r, 7, 8)) { o = plan_op(p, 0, "del", 1, (long)slot); if (rng_chance(r, 1, 8)) op_fault(o, FAULT(FC_CLOSE, FO_EINTR, 0)); }
        }
        if (rng_chance(r, 1, 6)) { o = plan_op(p, 0, "close", 1, 0L); if (rng_chance(r, 1, 2)) op_fault(o, FAULT(FC_CLOSE, FO_EINTR, 0)); }
        gen_tail(p, r, 0, hard);
        if (rng_chance(r, 1, 4)) for (int s = 0; s < NSLOT; s++) plan_op(p, 0, "del", 1, (long)s);         /* the listener first */
        else for (int s = NSLOT - 1; s >= 0; s--) plan_op(p, 0, "del", 1, (long)s);
    }
    /* clients */
    for (int c = 1; c <= nclients; c++) {
        const char *url = rng_chance(r, 1, 10) ? "unix:/tmp/nosuch" : rng_chance(r, 1, 2) ? "unix:/tmp/s0" : "/tmp/s0";
        int nsend = rng_range(r, 0, 4), nb = rng_chance(r, 1, 3);
        op_t *o;
        if (rng_chance(r, 1, 10)) {
            /* client with a local address too: bind, then connect; the bind may fail */
            char local[32];
            snprintf(local, sizeof(local), "unix:/tmp/c%d", rng_chance(r, 1, 4) ? 0 : c);
            o = plan_op(p, c, "new", 2, 0L, 2L);
            op_str(o, local, strlen(local)); op_str2(o, url, strlen(url));
        } else {
            o = plan_op(p, c, "new", 2, 0L, 1L);
            op_str(o, url, strlen(url));
        }
        o = plan_op(p, c, "open", 1, 0L);
        if (rng_chance(r, 1, 25)) op_fault(o, FAULT(FC_SOCKET, FO_EMFILE, 0));
        else if (rng_chance(r, 1, 25)) op_fault(o, FAULT(FC_CONNECT, FO_ECONNREFUSED, 0));
        else if (rng_chance(r, 1, 25)) op_fault(o, FAULT(FC_BIND, FO_EADDRINUSE, 0));
        if (rng_chance(r, 1, 12)) plan_op(p, c, "open", 1, 0L);               /* open again: retry after a failure, EISCONN after success */
        if (nb) plan_op(p, c, "nbio", 2, 0L, 1L);
        if (rng_chance(r, 1, 10)) plan_op(p, c, "checkio", 1, 0L);
        for (int k = 0; k < nsend; k++) {
            int slot = 0;
            int nbnow = nb, dupd = 0;
            if (rng_chance(r, 1, 12)) { o = plan_op(p, c, "dup", 2, 0L, 1L); if (rng_chance(r, 1, 6)) op_fault(o, FAULT(FC_OPEN, FO_EMFILE, 0)); slot = 1; dupd = 1; }
            if (slot && !nb && rng_chance(r, 1, 2)) {
                /* non-blocking mode belongs to the open file, not to the object: switched on through the copy, it holds for the
                   original too, which is then the one that sends (and meets EAGAIN) */
                plan_op(p, c, "nbio", 2, 1L, 1L);
                slot = 0; nbnow = 1; nb = 1;
            }
            o = plan_op(p, c, "send", 1, (long)slot);
            make_payload(o, c * 40 + k * 7, rng_chance(r, 1, 30) ? 0 : (size_t)payload_sizes[rng_below(r, NPAY)]);
            gen_faults(o, r, FC_WRITE, rng_chance(r, 1, 2) ? 3 : 8, nbnow, hard);
            if (dupd) plan_op(p, c, "del", 1, 1L);
        }
        if (rng_chance(r, 1, 8)) { o = plan_op(p, c, "recv", 1, 0L); gen_faults(o, r, FC_READ, 3, nb, 0); }
        if (rng_chance(r, 1, 5)) { o = plan_op(p, c, "close", 1, 0L); if (rng_chance(r, 1, 3)) op_fault(o, FAULT(FC_CLOSE, FO_EINTR, 0)); if (rng_chance(r, 1, 3)) plan_op(p, c, "close", 1, 0L); }
        gen_tail(p, r, c, hard);
        for (int s = NSLOT - 1; s >= 0; s--) plan_op(p, c, "del", 1, (long)s);
    }
    /* schedule: usually let the server reach listen() first, then seeded picks */
    nsched = rng_range(r, 0, 250);
    if (rng_chance(r, 4, 5)) for (int i = 0; i < 10 && p->nsched < PLAN_MAXSCHED; i++) p->sched[p->nsched++] = 0;
    for (int i = 0; i < nsched && p->nsched < PLAN_MAXSCHED; i++) p->sched[p->nsched++] = (int)rng_below(r, 4);
}

/* ------------------------------------------------------------------ oracles */
static uint32_t slot_gen[TASK_MAX][NSLOT];
static int slot_fd[TASK_MAX][NSLOT];
static int op_slot[TASK_MAX];                 /* the slot the running operation of a task works on, -1 = none */
static uint32_t op_gen_start[TASK_MAX];       /* descriptor generation counter when that operation started */
static void census(int t, const char *when)
{
    /* descriptor numbers are recycled: an object must keep referring to the descriptor it was given, not to a later one
       that happens to carry the same number */
    for (int s = 0; s < NSLOT; s++) {
        spif_socket_t so = sock[t][s];
        if (!so || so->fd < 0) { slot_fd[t][s] = -1; slot_gen[t][s] = 0; continue; }
        if (so->fd != slot_fd[t][s]) { slot_fd[t][s] = so->fd; slot_gen[t][s] = simfd_gen(t, so->fd); }
        else if (simfd_is_open(t, so->fd) && slot_gen[t][s] && simfd_gen(t, so->fd) != slot_gen[t][s]) {
            /* the same number, another descriptor.  If this very operation on this very object opened it (the object let its old
               descriptor go and made a new one, and the kernel handed the lowest free number back), the object is up to date;
               if it was opened by anything else the object is referring to somebody else's descriptor */
            if (op_slot[t] == s && simfd_gen(t, so->fd) > op_gen_start[t]) slot_gen[t][s] = simfd_gen(t, so->fd);
            else sim_fail("INVARIANT(stale-descriptor)", "%s: slot %d still holds number %d, which now names a descriptor opened later", when, s, so->fd);
        }
    }
    /* every live socket object of this task with fd >= 0 refers to an open descriptor; no two objects share one */
    for (int s = 0; s < NSLOT; s++) {
        spif_socket_t so = sock[t][s];
        if (!so || so->fd < 0) continue;
        if (!simfd_is_open(t, so->fd))
            sim_fail("INVARIANT(stale-descriptor)", "%s: socket object in slot %d refers to fd %d which is closed", when, s, so->fd);
        for (int s2 = s + 1; s2 < NSLOT; s2++)
            if (sock[t][s2] && sock[t][s2]->fd == so->fd)
                sim_fail("INVARIANT(shared-descriptor)", "%s: slots %d and %d both refer to fd %d", when, s, s2, so->fd);
    }
}
static void leak_check_done(int t, int s)
{
    /* after done() the object owns nothing: a descriptor it had is closed, and the object says so */
    spif_socket_t so = sock[t][s];
    if (so && so->fd >= 0 && simfd_is_open(t, so->fd) && slot_fd[t][s] == so->fd && simfd_gen(t, so->fd) == slot_gen[t][s])
        sim_fail("INVARIANT(descriptor-leak)", "done() left the object's descriptor %d open", so->fd);
}
static void leak_check(int t)
{
    char buf[256];
    for (int s = 0; s < NSLOT; s++) if (sock[t][s]) return;     /* objects still alive: nothing to conclude */
    if (simfd_describe_open(t, buf, sizeof(buf)) > 0)
        sim_fail("INVARIANT(descriptor-leak)", "all socket objects of task %d are deleted but descriptors remain open: %s", t, buf);
}

static void do_op(int t, op_t *o)
{
    int s = (int)o->a[0];
    spif_socket_t so;
    if (s < 0 || s >= NSLOT) sim_skip("bad-slot");
    so = sock[t][s];
    simfd_hard_error = 0;
    op_slot[t] = s; op_gen_start[t] = simfd_gen_now();
    if (!strcmp(o->kind, "done")) {
        /* the object is emptied but lives on: it must not go on referring to the descriptor it has just closed (the census below) */
        if (!so) return;
        spif_socket_done(so);
        tr_printf("t%d done slot%d fd=%d", t, s, so->fd);
        probe_hit("done_object_kept");
        leak_check_done(t, s);
    } else
    if (!strcmp(o->kind, "new")) {
        spif_url_t u;
        char *txt;
        if (so) sim_skip("slot-busy");
        txt = sim_malloc(o->slen + 1);
        memcpy(txt, o->s, o->slen); txt[o->slen] = 0;
        u = spif_url_new_from_ptr((spif_charptr_t)txt);
        sim_free(txt);
        if (o->a[1] == 2 && o->has_t) {
            spif_url_t d;
            txt = sim_malloc(o->tlen + 1);
            memcpy(txt, o->t, o->tlen); txt[o->tlen] = 0;
            d = spif_url_new_from_ptr((spif_charptr_t)txt);
            sim_free(txt);
            sock[t][s] = spif_socket_new_from_urls(u, d);
            spif_url_del(d);
        } else
            sock[t][s] = o->a[1] ? spif_socket_new_from_urls((spif_url_t)NULL, u) : spif_socket_new_from_urls(u, (spif_url_t)NULL);
        spif_url_del(u);
        if (!sock[t][s]) sim_fail("MISMATCH(new)", "spif_socket_new_from_urls returned NULL");
        tr_printf("t%d new slot%d", t, s);
    } else if (!strcmp(o->kind, "open")) {
        spif_bool_t b;
        if (!so) return;
        b = spif_socket_open(so);
        tr_printf("t%d open slot%d -> %d fd=%d", t, s, (int)b, so->fd);
        if (b && so->fd < 0) sim_fail("MISMATCH(open)", "open returned TRUE but fd=%d", so->fd);
        if (b) probe_hit("open_ok"); else probe_hit("open_failed");
    } else if (!strcmp(o->kind, "nbio")) {
        if (!so) return;
        if (o->a[1]) spif_socket_set_nbio(so); else spif_socket_clear_nbio(so);
        tr_printf("t%d nbio slot%d", t, s);
    } else if (!strcmp(o->kind, "checkio")) {
        if (!so) return;
        spif_socket_check_io(so);
        tr_printf("t%d checkio slot%d flags=%x", t, s, (unsigned)so->flags & 0x1800);
    } else if (!strcmp(o->kind, "accept")) {
        int d = (int)o->a[1];
        spif_socket_t a;
        if (!so || d < 0 || d >= NSLOT) return;
        if (sock[t][d]) return;
        if (so->fd < 0) return;                       /* listener never opened: accept(-1) is outside the property */
        a = spif_socket_accept(so);
        tr_printf("t%d accept slot%d -> slot%d %s fd=%d", t, s, d, a ? "ok" : "NULL", a ? a->fd : -1);
        if (a) {
            sock[t][d] = a;
            probe_hit("accept_ok");
            if (a->fd < 0 || !simfd_is_open(t, a->fd)) sim_fail("INVARIANT(stale-descriptor)", "accepted socket has fd %d which is not open", a->fd);
            if (a->fd == so->fd) sim_fail("INVARIANT(shared-descriptor)", "accepted socket shares the listener's descriptor %d", a->fd);
        } else probe_hit("accept_failed");
    } else if (!strcmp(o->kind, "send")) {
        spif_str_t data;
        spif_bool_t b;
        int cid, role, fd;
        uint64_t tx0;
        char *txt;
        if (!so) return;
        fd = so->fd;
        if (fd >= 0 && simfd_nonblocking(t, fd) && !SPIF_SOCKET_FLAGS_IS_SET(so, SPIF_SOCKET_FLAGS_NBIO)) probe_hit("sender_nonblocking_through_its_copy");
        cid = fd >= 0 ? simfd_conn_id(t, fd) : 0;
        role = fd >= 0 ? simfd_conn_role(t, fd) : 0;
        tx0 = fd >= 0 ? simfd_tx_total(t, fd) : 0;
        txt = sim_malloc(o->slen + 1);
        memcpy(txt, o->s, o->slen); txt[o->slen] = 0;
        data = spif_str_new_from_ptr((spif_charptr_t)txt);
        sim_free(txt);
        b = spif_socket_send(so, data);
        spif_str_del(data);
        tr_printf("t%d send slot%d len=%zu -> %d", t, s, o->slen, (int)b);
        if (cid > 0 && cid < MAXCONN) {
            /* whatever the kernel accepted during this call must be a prefix of the payload */
            const unsigned char *log;
            size_t tot = simfd_conn_txlog(cid, role, &log), d = tot - (size_t)tx0;
            if (d > o->slen || (d && memcmp(log + tx0, o->s, d)))
                sim_fail("MISMATCH(send-wrong-bytes)", "the %zu bytes handed to the kernel are not a prefix of the %zu-byte payload", d, o->slen);
            if (d && d < o->slen) probe_hit("send_partially_delivered");
        }
        if (b) {
            probe_hit("send_true");
            if (o->slen == 0) probe_hit("empty_payload_reported_sent");       /* (payloads start at one byte: nothing is said about none) */
            if (cid > 0 && cid < MAXCONN) {
                const unsigned char *log;
                uint64_t tx1 = simfd_conn_txlog(cid, role, &log);
                if (tx1 - tx0 != o->slen)
                    sim_fail("MISMATCH(send-true-but-short)", "send returned TRUE but only %llu of %zu bytes were handed to the kernel",
                             (unsigned long long)(tx1 - tx0), o->slen);
            } else sim_fail("MISMATCH(send-true-unconnected)", "send returned TRUE on a socket that is not connected");
        } else {
            probe_hit("send_false");
            if (cid > 0 && cid < MAXCONN) conn[cid].broken[role] = 1;
            if (o->slen && cid > 0 && !simfd_hard_error)
                sim_fail("MISMATCH(send-false-without-error)", "send returned FALSE although no call reported a hard error");
        }
    } else if (!strcmp(o->kind, "recv")) {
        spif_str_t got;
        int cid, role, fd;
        size_t len;
        if (!so || so->fd < 0) return;
        fd = so->fd;
        cid = simfd_conn_id(t, fd);
        role = simfd_conn_role(t, fd);
        if (cid <= 0) return;                         /* recv on a listener / unconnected socket: outside the property */
        simfd_last_read_t[task_current()] = 1;
        { uint64_t rx0 = simfd_is_open(t, fd) ? simfd_rx_total(t, fd) : 0;
          got = spif_socket_recv(so);
          if (!got) {
              /* nothing to hand out is not one of the statement's payloads (they have at least one byte): NULL is as good as an empty
                 string then -- but only then */
              if (simfd_is_open(t, fd) && simfd_rx_total(t, fd) != rx0) sim_fail("MISMATCH(recv-null)", "spif_socket_recv returned NULL although the kernel delivered %llu bytes during the call", (unsigned long long)(simfd_rx_total(t, fd) - rx0));
              probe_hit("recv_returned_nothing");
              return;
          } }
        /* "EINTR is transparent, short reads are continued": a receive may only stop because the descriptor reported end of file
           or an error other than EINTR (EAGAIN on a non-blocking socket, EIO, ...) -- never after a read that returned data or EINTR */
        { long lr = simfd_last_read_t[task_current()];
          if (lr > 0) sim_fail("MISMATCH(recv-stopped-early)", "recv returned after a read() that delivered %ld bytes, without waiting for end of file or an error", lr);
          if (lr == -EINTR) sim_fail("MISMATCH(recv-stopped-early)", "recv returned after a read() that failed with EINTR");
          if (lr == 0) probe_hit("recv_ended_at_eof"); else probe_hit("recv_ended_on_error"); }
        len = (size_t)spif_str_get_len(got);
        tr_printf("t%d recv slot%d -> %zu bytes", t, s, len);
        if (!sa_readable(got, sizeof(*got))) sim_fail("INVARIANT(recv-object)", "returned string object is not a live block");
        if (len && (!SPIF_STR_STR(got) || !sa_readable(SPIF_STR_STR(got), len + 1)))
            sim_fail("INVARIANT(recv-buffer)", "returned text buffer is not a live block of len+1 bytes (len=%zu)", len);
        if (cid < MAXCONN) {
            buf_t stv, *st = &stv;
            size_t off = conn[cid].rcvd[role];
            stv.len = simfd_conn_txlog(cid, 1 - role, (const unsigned char **)&stv.b);
            uint64_t rx = simfd_is_open(t, fd) ? simfd_rx_total(t, fd) : 0;
            if (len) {
                const unsigned char *g = (const unsigned char *)SPIF_STR_STR(got);
                if (strlen((const char *)g) != len) sim_fail("MISMATCH(recv-len)", "reported length %zu but strlen %zu", len, strlen((const char *)g));
                if (off + len > st->len) sim_fail("MISMATCH(recv-stream)", "received %zu bytes at offset %zu but only %zu were ever sent", len, off, st->len);
                if (memcmp(g, st->b + off, len)) {
                    size_t i = 0;
                    while (i < len && g[i] == st->b[off + i]) i++;
                    sim_fail("MISMATCH(recv-stream)", "received bytes differ from sent bytes at stream offset %zu (got 0x%02x want 0x%02x)", off + i, g[i], st->b[off + i]);
                }
            }
            conn[cid].rcvd[role] = off + len;
            if (simfd_is_open(t, fd) && rx != conn[cid].rcvd[role])
                sim_fail("MISMATCH(recv-lost-bytes)", "kernel delivered %llu bytes to this socket so far but recv results total %zu",
                         (unsigned long long)rx, conn[cid].rcvd[role]);
            /* end of file means the peer is gone and the queue is empty: everything it ever sent must have been handed out by now */
            if (simfd_last_read_t[task_current()] == 0 && conn[cid].rcvd[role] != st->len)
                sim_fail("MISMATCH(recv-incomplete)", "recv saw end of file after %zu bytes, the peer had sent %zu", conn[cid].rcvd[role], st->len);
            if (len >= 4096) probe_hit("recv_over_4096");
        }
        spif_str_del(got);
    } else if (!strcmp(o->kind, "close")) {
        if (!so) return;
        spif_socket_close(so);
        tr_printf("t%d close slot%d fd=%d", t, s, so->fd);
        if (so->fd >= 0 && !simfd_is_open(t, so->fd)) sim_fail("INVARIANT(stale-descriptor)", "after close the object still refers to closed fd %d", so->fd);
    } else if (!strcmp(o->kind, "dup")) {
        int d = (int)o->a[1];
        if (!so || d < 0 || d >= NSLOT || sock[t][d]) return;
        sock[t][d] = spif_socket_dup(so);
        tr_printf("t%d dup slot%d -> slot%d fd=%d", t, s, d, sock[t][d] ? sock[t][d]->fd : -1);
        if (sock[t][d]) probe_hit("dup_ok");
        if (sock[t][d] && sock[t][d]->fd < 0 && so->fd >= 0) probe_hit("dup_without_descriptor");      /* dup() itself failed: the copy has no descriptor */
    } else if (!strcmp(o->kind, "del")) {
        int fd0, open0, was_open;
        if (!so) return;
        fd0 = so->fd; open0 = simfd_open_count(t, 0); was_open = fd0 >= 0 && simfd_is_open(t, fd0);
        spif_socket_del(so);
        sock[t][s] = NULL;
        /* deleting an object closes its own descriptor -- that one and no other */
        if (was_open && simfd_is_open(t, fd0) && simfd_gen(t, fd0) == slot_gen[t][s])
            sim_fail("INVARIANT(descriptor-leak)", "the deleted object's descriptor %d is still open", fd0);
        if (simfd_open_count(t, 0) != open0 - (was_open ? 1 : 0))
            sim_fail("INVARIANT(descriptor-census)", "deleting an object that held %s changed the number of open descriptors from %d to %d", was_open ? "one open descriptor" : "no open descriptor", open0, simfd_open_count(t, 0));
        tr_printf("t%d del slot%d", t, s);
        probe_hit("del");
        leak_check(t);
    } else sim_skip("unknown-op");
    census(t, o->kind);
    simfd_progress++;
}

static void task_body(int t, void *arg)
{
    (void)arg;
    for (int i = 0; i < P->nops; i++) {
        op_t *o = (op_t *)&P->ops[i];
        if (o->task != t) continue;
        R.cur_op = o; R.cur_op_index = i; R.op_steps = 0;
        do_op(t, o);
        R.cur_op = NULL;
        task_yield();
    }
}

static void exec(const plan_t *p)
{
    int nt = (int)plan_get(p, "ntasks", 2), rc;
    if (plan_get(p, "fd.base", 1) == 0) { simfd_set_base(0); probe_hit("descriptors_numbered_from_zero"); }
    simfd_set_select_eintr((int)plan_get(p, "select.eintr", 0));
    if (nt < 1 || nt > TASK_MAX) sim_skip("bad-ntasks");
    for (int i = 0; i < p->nops; i++) if (p->ops[i].task < 0 || p->ops[i].task >= nt) sim_skip("bad-task");
    P = p;
    hard_faults_enabled = (int)plan_get(p, "hard", 0);
    memset(sock, 0, sizeof(sock)); memset(slot_gen, 0, sizeof(slot_gen)); memset(slot_fd, 0, sizeof(slot_fd));
    for (int i = 0; i < MAXCONN; i++) { conn[i].stream[0].len = conn[i].stream[1].len = 0; conn[i].rcvd[0] = conn[i].rcvd[1] = 0; conn[i].broken[0] = conn[i].broken[1] = 0; }
    if (plan_get(p, "sweep", 0)) { probe_hit("sweep_plan"); if (plan_get(p, "sweep", 0) == 2) probe_hit("sweep_small_queue"); if (plan_get(p, "sweep", 0) == 3) probe_hit("sweep_length_4"); }
    rc = task_run_all(nt, task_body, NULL, p->sched, p->nsched);
    if (rc < 0) { probe_hit("run_ended_blocked"); tr_printf("BLOCKED"); }
    else {
        probe_hit("run_completed");
        for (int t = 0; t < nt; t++) leak_check(t);
    }
}

const engine_t netsim_engine = { "netsim", "C19", gen, exec };
