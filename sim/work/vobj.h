/* vobj: harness-defined libast element class with instrumented dup/del/comp (DESIGN 3.2) */
#ifndef VOBJ_H
#define VOBJ_H
#include "libast_h.h"

#define VOBJ_MAGIC 0x766f626aL
typedef struct vobj_struct {
    spif_class_t cls;
    long magic;
    long key;        /* ordering key (mutable by the harness to probe ownership) */
    long serial;     /* unique per object */
    long root;       /* serial of the harness-created object this one was (transitively) copied from */
} *vobj_t;

extern spif_class_t vobj_class, vobj2_class;
vobj_t vobj_new2(long key);                /* the same, of the sibling class */
vobj_t vobj_new(long key);                 /* harness-created original: root == serial */
int    vobj_valid(const void *p);          /* live block carrying the magic */
void   vobj_reset(void);                   /* per run */
extern long vobj_dups, vobj_dels, vobj_comps, vobj_live;
int    vobj_is_live_serial(long serial);
#endif
