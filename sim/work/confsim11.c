/* confsim / C11: the config subsystem is memory-safe and spawns nothing on arbitrary files and paths;
 * temp files are unique and private; init/use/free cycles release everything and leave no state behind. */
#define _GNU_SOURCE
#include "sim.h"
#include "simfd.h"
#include "simfs.h"
#include "confsim.h"
#include <string.h>
#include <stdlib.h>
#include <ctype.h>
#include <strings.h>
#include <unistd.h>

int simacc_builtin_count(void), simacc_builtin_cap(void);
const void *simacc_vars_head(void);

static spif_charptr_t extra_builtin(spif_charptr_t param)
{
    char t[64];
    snprintf(t, sizeof(t), "X[%.40s]", param ? (const char *)param : "");
    return (spif_charptr_t)sim_strdup(t);
}

static int text_may_spawn(const unsigned char *d, size_t n)
{
    for (size_t i = 0; i < n; i++) {
        if (d[i] == '`') return 1;
        if (d[i] == '%') {
            /* the directive word may stand off from the per cent sign: blanks, tabs and a quote are stepped over before it is read */
            size_t j = i + 1;
            while (j < n && (d[j] == ' ' || d[j] == '\t' || d[j] == '"' || d[j] == '\'')) j++;
            if (j + 4 <= n && !strncasecmp((const char *)d + j, "exec", 4)) return 1;
            if (j + 7 <= n && !strncasecmp((const char *)d + j, "preproc", 7)) return 1;
        }
    }
    return 0;
}

static char tmpnames[32][320]; static int ntmpnames;
static int bigdir; static long g_outlen = 22;
static int cyc_fds, cyc_temps, cyc_dirs, cyc_streams, cyc_spawnfiles;
static void exec_c11(const plan_t *p)
{
    uint32_t base_serial = 0;
    size_t base_live = 0;
    int inited = 0, may_spawn = 0, cycle = 0, cycle_from = 0;
    uint64_t first_digest = 0, first_ops = 0, cycle_ops = 0;
    int first_count = -1;
    conf_reset_mirror(); conf_tree_reset();
    ntmpnames = 0;
    simfs_add_dir("/cfg"); simfs_add_dir("/cfg/sub"); simfs_set_cwd("/cfg");
    conf_fill_dir(p);
    simfs_set_mkstemp_mode((int)plan_get(p, "mkstemp.mode", 0600));
    conf_set_index_checks(1);
    conf_allow_record_overflow(1);
    conf_env_setup(p);
    for (int i = 0; i < p->nops; i++) {
        op_t *o = (op_t *)&p->ops[i];
        const char *k = o->kind;
        R.cur_op = o; R.cur_op_index = i; R.op_steps = 0;
        sa_set_tag(i + 1);
        if (strcmp(k, "init") && strcmp(k, "free")) {
            /* digest of what this cycle is given, so that "repeats the first cycle" is decided from the plan as executed */
            uint64_t h = cycle_ops;
            for (const char *q = k; *q; q++) { h ^= (unsigned char)*q; h *= 0x100000001b3ULL; }
            for (int q = 0; q < o->na; q++) { h ^= (uint64_t)o->a[q]; h *= 0x100000001b3ULL; }
            for (size_t q = 0; q < (o->has_s ? o->slen : 0); q++) { h ^= o->s[q]; h *= 0x100000001b3ULL; }
            h ^= 0xff; h *= 0x100000001b3ULL;
            for (size_t q = 0; q < (o->has_t ? o->tlen : 0); q++) { h ^= o->t[q]; h *= 0x100000001b3ULL; }
            for (int q = 0; q < o->nf; q++) { h ^= (uint64_t)o->f[q]; h *= 0x100000001b3ULL; }
            cycle_ops = h;
        }
        if (!strcmp(k, "init")) {
            if (inited) continue;
            base_serial = sa_serial(); base_live = sa_live_count();
            conf_reset_mirror();
            simfs_set_call_failures((int)plan_get(p, "fdopen.fail", 0), (int)plan_get(p, "fchmod.fail", 0)); simfs_set_dir_grows((int)plan_get(p, "dir.grows", 0)); simfs_set_fdopen_read_failure((int)plan_get(p, "exec.readfail", 0));      /* every cycle meets the same refusals, so a repeated cycle is still comparable */
            spifconf_init_subsystem();
            cyc_fds = simfs_open_fds(); cyc_temps = simfs_live_temp_files(); cyc_dirs = simfs_open_dirs(); cyc_streams = simfd_open_streams(); cyc_spawnfiles = simfs_live_spawn_files();
            inited = 1; cycle++; cycle_from = conf_trace_count(); cycle_ops = 1469598103934665603ULL;
            tr_printf("init cycle %d", cycle);
        } else if (!strcmp(k, "free")) {
            if (!inited) continue;
            spifconf_free_subsystem();
            inited = 0;
            tr_printf("free cycle %d", cycle);
            /* "freeing releases everything it allocated and leaves no state behind": besides memory, nothing the cycle opened or created
               for its own use is left -- config streams, directory handles, temp-file descriptors, temp files */
            if (simfd_open_streams() != cyc_streams) sim_fail("INVARIANT(left-behind)", "%d config streams opened during the cycle are still open after spifconf_free_subsystem()", simfd_open_streams() - cyc_streams);
            if (simfs_open_dirs() != cyc_dirs) sim_fail("INVARIANT(left-behind)", "%d directory handles opened during the cycle are still open after spifconf_free_subsystem()", simfs_open_dirs() - cyc_dirs);
            if (simfs_open_fds() != cyc_fds) sim_fail("INVARIANT(left-behind)", "%d temporary-file descriptors opened during the cycle are still open after spifconf_free_subsystem()", simfs_open_fds() - cyc_fds);
            if (simfs_live_temp_files() != cyc_temps) sim_fail("INVARIANT(left-behind)", "%d temporary files created during the cycle still exist after spifconf_free_subsystem()", simfs_live_temp_files() - cyc_temps);
            if (simfs_live_spawn_files() != cyc_spawnfiles) {
                /* a file that came into being because a command line the subsystem composed redirected its output there.  If the name is one
                   the configuration text itself spelled out, that is the text's business; a name the subsystem made up is the subsystem's */
                const char *nm = simfs_a_spawn_file(), *base = strrchr(nm, '/');
                int spelled = 0;
                base = base ? base + 1 : nm;
                for (int j = 0; j < p->nops && !spelled; j++) if (p->ops[j].has_t && p->ops[j].t && *base && memmem(p->ops[j].t, p->ops[j].tlen, base, strlen(base))) spelled = 1;
                if (!spelled) sim_fail("INVARIANT(left-behind)", "a command's output was sent to \"%.80s\", a name the configuration text does not contain, and the file still exists after spifconf_free_subsystem()", nm);
                cyc_spawnfiles = simfs_live_spawn_files();
            }
            if (sa_count_live_since(base_serial) || sa_live_count() != base_live) {
                char buf[300];
                size_t n = sa_report_live_since(base_serial, buf, sizeof(buf));
                int tag = 0;
                sscanf(strstr(buf, "tag") ? strstr(buf, "tag") + 3 : "0", "%d", &tag);
                if (tag > 0 && tag <= p->nops) { R.cur_op = (op_t *)&p->ops[tag - 1]; R.cur_op_index = tag - 1; }
                sim_fail("LEAK", "%zu block(s) allocated during the cycle are still live after spifconf_free_subsystem() (first from op #%d): %s", n, tag, buf);
            }
            probe_hit("lifecycle_cycle_completed");
            if (o->a[0]) {              /* this cycle repeated the first one: same input, same handler trace */
                uint64_t d = conf_trace_digest(cycle_from);
                int cnt = conf_trace_count() - cycle_from;
                if (first_count < 0) { first_digest = d; first_count = cnt; first_ops = cycle_ops; }
                else if (cycle_ops != first_ops) probe_hit("cycle_not_a_repeat_after_shrinking");     /* only identical input promises an identical trace */
                else {
                    probe_hit("repeated_cycle_compared");
                    if (cnt != first_count || d != first_digest) sim_fail("MISMATCH(cycle-trace)", "cycle %d repeated the input of the first cycle but the handlers saw a different call trace (%d calls vs %d)", cycle, cnt, first_count);
                }
            }
        } else if (!inited) continue;
        else if (!strcmp(k, "ctx")) conf_register((int)o->a[0], (int)o->a[1]);
        else if (!strcmp(k, "builtin")) {
            for (int q = 0; q < (int)o->a[0]; q++) {
                char nm[16];
                snprintf(nm, sizeof(nm), "xb%d", simacc_builtin_count());
                spifconf_register_builtin(nm, extra_builtin);
            }
            if (simacc_builtin_count() >= 10) probe_hit("builtin_table_grew");
            tr_printf("builtins=%d cap=%d", simacc_builtin_count(), simacc_builtin_cap());
        } else if (!strcmp(k, "file") && o->has_s && o->has_t) {
            char nm[128];
            snprintf(nm, sizeof(nm), "%.*s", (int)(o->slen < 120 ? o->slen : 120), (const char *)o->s);
            conf_tree_add(nm, o->t, o->tlen);
            if (text_may_spawn(o->t, o->tlen)) may_spawn = 1;
            if (!o->tlen) probe_hit("empty_file");
            if (memchr(o->t, 0, o->tlen)) probe_hit("nul_in_file");
            { size_t run = 0, best = 0; for (size_t q = 0; q < o->tlen; q++) { if (o->t[q] == '\n') run = 0; else if (++run > best) best = run; }
              if (best >= 20479) probe_hit("line_over_limit"); else if (best >= 20470) probe_hit("line_near_limit"); }
        } else if (!strcmp(k, "parse") && o->has_s) {
            char *name = sim_malloc(o->slen + 1), *ret;
            int spawns0 = simfs_spawns, fds0 = simfs_open_fds(), temps0 = simfs_live_temp_files();
            memcpy(name, o->s, o->slen); name[o->slen] = 0;
            if (o->a[0]) ret = (char *)spifconf_parse((spif_charptr_t)name, (spif_charptr_t)(o->a[0] == 2 ? "/cfg" : NULL), (spif_charptr_t)"/nonexistent:/cfg:/tmp");
            else ret = (char *)spifconf_parse((spif_charptr_t)name, NULL, NULL);
            tr_printf("parse %s -> %s calls=%d spawns=%d", name, ret ? ret : "NULL", conf_trace_count(), simfs_spawns);
            if (ret) sim_free(ret);
            sim_free(name);
            if (!may_spawn && simfs_spawns != spawns0) sim_fail("MISMATCH(spawn)", "a process was spawned (\"%.80s\") although no file contains a backquote, %%exec or %%preproc", simfs_last_cmd);
            if (simfs_spawns != spawns0) probe_hit("spawn_by_directive");
            (void)fds0; (void)temps0;       /* (what a parse may keep until the subsystem is freed -- a stream, a scratch file -- is its own business: the census is taken at free) */
            if (simacc_vars_head()) probe_hit("vars_defined");
            if (cycle > 1 && simacc_vars_head()) probe_hit("second_cycle_uses_vars");
        } else if (!strcmp(k, "find") && o->has_s) {
            char *file = sim_malloc(o->slen + 1), *dir = NULL, *pl = NULL, *ret;
            const unsigned char *sep = o->has_t ? memchr(o->t, 1, o->tlen) : NULL;
            memcpy(file, o->s, o->slen); file[o->slen] = 0;
            for (size_t q = 0; q < o->slen; q++) if (!file[q]) file[q] = 'x';
            if (o->has_t && !(o->a[0] & 1)) { size_t dl = sep ? (size_t)(sep - o->t) : o->tlen; dir = sim_malloc(dl + 1); memcpy(dir, o->t, dl); dir[dl] = 0; for (size_t q = 0; q < dl; q++) if (!dir[q]) dir[q] = 'x'; }
            if (sep && !(o->a[0] & 2)) { size_t l = o->tlen - (size_t)(sep - o->t) - 1; pl = sim_malloc(l + 1); memcpy(pl, sep + 1, l); pl[l] = 0; for (size_t q = 0; q < l; q++) if (!pl[q]) pl[q] = 'x'; }
            ret = (char *)spifconf_find_file((spif_charptr_t)file, (spif_charptr_t)dir, (spif_charptr_t)pl);
            if (ret && strlen(ret) >= 4096) sim_fail("MISMATCH(find-result)", "returned path is %zu characters long", strlen(ret));
            tr_printf("find %.40s -> %.60s", file, ret ? ret : "NULL");
            if (ret) probe_hit("find_file_found");
            if ((pl && strlen(pl) > 32767) || (dir && strlen(dir) > 4096)) probe_hit("path_component_over_limits");
            sim_free(file); if (dir) sim_free(dir); if (pl) sim_free(pl);
        } else if (!strcmp(k, "tempfile") && o->has_s) {
            /* the caller's buffer is exactly as long as the caller says (or as long as its template, if that is longer): a byte written behind
               it is the allocator's to report */
            size_t room0 = (size_t)(o->a[0] > 0 && o->a[0] <= 300 ? o->a[0] : 300), tl0 = o->slen < 200 ? o->slen : 200, blk = room0 > tl0 + 1 ? room0 : tl0 + 1;
            char *tmpl = sim_malloc(blk);
            int fd, reused0 = simfs_tempfile_name_reused, bad0 = simfs_tempfile_bad_mode, made0 = simfs_tempfiles_created;
            snprintf(tmpl, blk, "%.*s", (int)tl0, (const char *)o->s);
            for (char *q = tmpl; *q; q++) if (*q == '/') *q = '_';
            fd = spiftool_temp_file((spif_charptr_t)tmpl, (size_t)(o->a[0] > 0 && o->a[0] <= 300 ? o->a[0] : 300));
            tr_printf("tempfile -> %d %.60s", fd, tmpl);
            if (fd >= 0) {
                probe_hit("temp_file_created");
                if (simfs_fd_mode(fd) != 0600) sim_fail("INVARIANT(tempfile-mode)", "temporary file has mode %o when spiftool_temp_file returns", simfs_fd_mode(fd));
                if (simfs_tempfile_bad_mode != bad0) sim_fail("INVARIANT(tempfile-mode)", "temporary file was created accessible to group/others (umask not restricted while creating it)");
                if (simfs_tempfile_name_reused != reused0) sim_fail("INVARIANT(tempfile-unique)", "temporary file name was used before");
                /* the name handed back is the file that was created exclusively during this call, and no earlier call returned it */
                if (simfs_tempfiles_created <= made0) sim_fail("INVARIANT(tempfile-unique)", "no file was created exclusively during the call");      /* (one attempt or several: its own business) */
                {
                    /* the caller's buffer receives the created name -- all of it when it fits in len bytes, else a NUL-terminated prefix */
                    const char *made = simfs_last_temp_name();
                    size_t room = (size_t)(o->a[0] > 0 && o->a[0] <= 300 ? o->a[0] : 300), ml = strlen(made), tl = strlen(tmpl);
                    if (!simfs_is_temp(made)) sim_fail("INVARIANT(tempfile-unique)", "the created file \"%.80s\" is gone when the call returns", made);
                    /* (a name that does not fit the caller's buffer: what the buffer holds then is not stated -- it only has to be a string) */
                    if (ml < room ? strcmp(tmpl, made) != 0 : !memchr(tmpl, 0, blk))
                        sim_fail("INVARIANT(tempfile-unique)", "the returned name \"%.80s\" is not the file that was created (\"%.80s\", buffer of %zu)", tmpl, made, room);
                    (void)tl;
                    if (ml < room) {
                        for (int q = 0; q < ntmpnames; q++) if (!strcmp(tmpnames[q], tmpl)) sim_fail("INVARIANT(tempfile-unique)", "the name \"%.80s\" was returned by an earlier call", tmpl);
                        if (ntmpnames < 32) snprintf(tmpnames[ntmpnames++], sizeof(tmpnames[0]), "%s", tmpl);
                    }
                }
                sim_close(fd);
                sim_remove(simfs_last_temp_name());          /* the caller's file: the caller removes it (the cycle's census is about what the subsystem itself leaves) */
            }
            sim_free(tmpl);
        } else if (!strcmp(k, "expand") && o->has_s) {
            char *b = sim_malloc(CONFIG_BUFF), *ret;
            size_t n = o->slen < CONFIG_BUFF - 1 ? o->slen : CONFIG_BUFF - 1;
            int spawns0 = simfs_spawns;
            memcpy(b, o->s, n); b[n] = 0;
            for (size_t q = 0; q < n; q++) if (!b[q]) b[q] = '.';
            ret = (char *)spifconf_shell_expand((spif_charptr_t)b);
            if (ret && strlen(ret) >= CONFIG_BUFF) sim_fail("INVARIANT(expand-length)", "expanded value is %zu characters", strlen(ret));
            if (!text_may_spawn(o->s, o->slen) && simfs_spawns != spawns0) sim_fail("MISMATCH(spawn)", "expansion spawned \"%.80s\" without a backquote or %%exec", simfs_last_cmd);
            tr_printf("expand -> %.60s", ret ? ret : "NULL");
            sim_free(b);
        }
    }
    R.cur_op = NULL;
    conf_set_index_checks(0);
    conf_allow_record_overflow(0);
    if (simfs_tempfile_bad_mode) sim_fail("INVARIANT(tempfile-mode)", "a temporary file was created accessible to group/others");
    if (simfs_tempfile_name_reused) sim_fail("INVARIANT(tempfile-unique)", "a temporary file name was reused");
}

/* ------------------------------------------------------------------ generator */
static unsigned char gb[200000];
static size_t gbn;
static void add(const char *fmt, ...)
{
    va_list ap; int n;
    va_start(ap, fmt);
    n = vsnprintf((char *)gb + gbn, sizeof(gb) - gbn, fmt, ap);
    va_end(ap);
    if (n > 0 && gbn + (size_t)n < sizeof(gb)) gbn += (size_t)n;
}
static int g_allow_exec;
static void add_bytes(rng_t *r, size_t n, int mode)
{
    static const char meta[] = "abc $%~\\\"'`(){}\n\t#<be";
    for (size_t i = 0; i < n && gbn < sizeof(gb) - 1; i++) {
        gb[gbn] = mode == 0 ? (unsigned char)rng_below(r, 256) : mode == 1 ? (unsigned char)meta[rng_below(r, sizeof(meta) - 1)] : (unsigned char)('a' + rng_below(r, 26));
        if (gb[gbn] == '`' && !g_allow_exec) gb[gbn] = '.';       /* plans that must not spawn anything contain no backquote at all, so the census applies to them */
        gbn++;
    }
}
static void gen_conf_file(plan_t *p, rng_t *r, const char *name, int allow_exec, int vars)
{
    int kind = (int)rng_below(r, 12), nl = rng_range(r, 0, 25), level = !strcmp(name, "root.cfg") ? 0 : !strcmp(name, "inc.cfg") ? 1 : 2, selfinc = 0, nincl = 0, preproc_here = 0;
    op_t *o;
    gbn = 0;
    if (kind == 0) { /* empty file */ }
    else if (kind == 1) add_bytes(r, (size_t)rng_range(r, 1, 300), 0);                      /* arbitrary bytes, no magic */
    else {
        if (rng_chance(r, 1, 10)) {
            /* the version in the first line is compared with the program's own: long runs of digits, letters or punctuation in it */
            static const int rl[] = { 126, 127, 128, 129, 200, 240 };
            int n = rl[rng_below(r, 6)], kind3 = (int)rng_below(r, 3);
            add(rng_chance(r, 1, 3) ? "<simrun-1." : "<simrun-");
            for (int z = 0; z < n; z++) add("%c", kind3 == 0 ? '0' + (z * 7 + 9) % 10 : kind3 == 1 ? 'a' + z % 26 : ".-_+"[z % 4]);
            add(rng_chance(r, 1, 4) ? "\n" : ">\n");
        } else
        add(rng_chance(r, 1, 12) ? "<simrun-" : rng_chance(r, 1, 12) ? "<simrun-9.9.9beta3>\n" : "<simrun-1.0>\n");
        for (int q = 0; q < nl; q++) {
            int c = (int)rng_below(r, 100);
            if (c < 20) { add_bytes(r, (size_t)rng_range(r, 1, 40), 2); add("\n"); }
            else if (c < 35) { add_bytes(r, (size_t)rng_range(r, 1, 60), 1); add("\n"); }
            else if (c < 45) add("begin %s%d\n", rng_chance(r, 1, 6) ? "zz" : "c", rng_range(r, 1, 9));
            else if (c < 53) add("end\n");
            else if (c < 58) { add_bytes(r, (size_t)rng_range(r, 1, 30), 0); add("\n"); }
            else if (c < 62) { static const int lens[] = { 20470, 20477, 20478, 20479, 20480, 20481, 20482, 41000 }; add_bytes(r, (size_t)lens[rng_below(r, 8)], 2); add("\n"); }
            else if (c < 66) {
                /* include graph: root -> inc.cfg -> sub/s.cfg; a file may include itself at most once (a self-including file
                   recurses to the depth limit; two such lines would recurse 2^255 times) */
                if (++nincl > 3 || rng_chance(r, 1, 3)) add("%%include missing.cfg\n");      /* at most three real includes per file keeps the work per plan bounded */
                else if (level == 0) add("%%include %s\n", rng_chance(r, 1, 2) ? "inc.cfg" : "sub/s.cfg");
                else if (level == 1) add("%%include sub/s.cfg\n");
                else if (!selfinc && !preproc_here && rng_chance(r, 1, 4)) { add("%%include sub/s.cfg\n"); selfinc = 1; }
            }
            else if (c < 72 && vars) add("%%put(k%d v%d)\n", rng_range(r, 0, 3), rng_range(r, 0, 9));
            else if (c < 78 && vars) {
                switch (rng_below(r, 9)) {
                case 6: add("%%put('a\" b' one)\n"); break;                                        /* a name with a quote and a blank in it: sorts in front of the k's */
                case 7: add("%%put(\"a\\\\\" b)\n"); break;                                      /* two words to the counter, one unterminated word to the splitter: the value comes back NULL and the variable is deleted */
                case 8: add("x %%get('a\" b' none) %%get(k%d) y\n", rng_range(r, 0, 4)); break;
                case 0: add("x %%get(k%d dflt) y\n", rng_range(r, 0, 4)); break;                 /* the variable exists: the default is dropped */
                case 1: add("x %%get(k%d 'a b') y\n", rng_range(r, 0, 4)); break;
                case 2: add("%%put(k%d %%get(k%d d))\n", rng_range(r, 0, 3), rng_range(r, 0, 4)); break;
                case 3: add("x %%get(k%d\n", rng_range(r, 0, 4)); break;                          /* never closed */
                case 4: add("%%put(k%d\n", rng_range(r, 0, 3)); break;
                default: add("x %%get(k%d) y\n", rng_range(r, 0, 4)); break;
                }
            }
            else if (c < 79) {
                /* directive lines in odd dress: blanks behind the per cent sign, a quote in front of the keyword (closed or not), and an
                   argument that gets shorter when it is expanded, so that what was there before lies behind the new end of the line */
                static const char *gap[] = { " ", "  ", "\t", "" };
                static const char *qt[] = { "\"", "'", "" };
                static const char *shr[] = { "${NOSUCH}", "$NOSUCH", "%get(nokey)", "$(EMPTY)", "${NOSUCH}${NOSUCH_TOO} x", "$NOSUCH missing.cfg", "${NOSUCH}\"", "" };
                add("%%%s%sinclude%s %s\n", gap[rng_below(r, 4)], qt[rng_below(r, 3)], rng_chance(r, 1, 4) ? qt[rng_below(r, 2)] : "", shr[rng_below(r, 8)]);
            }
            else if (c < 80 && rng_chance(r, 1, 8)) {
                /* built-in calls nested hundreds deep: one line of a few kilobytes, one level of recursion per call */
                static const int deep[] = { 20, 100, 300, 450, 600, 1000, 3000 };
                int d = deep[rng_below(r, level == 2 ? 3 : 7)];      /* (a file that may include itself 255 times over: at most 300 deep, or one plan takes minutes) */
                add("x ");
                for (int z = 0; z < d; z++) add("%%get(");
                add("k1");
                for (int z = 0; z < d - (rng_chance(r, 1, 10) ? 1 : 0); z++) add(")");
                add(" y\n");
            }
            else if (c < 80 && allow_exec && rng_chance(r, 1, 3)) {
                /* commands whose output is not plain text: it begins with a NUL, is all white space, holds quotes and per cent signs */
                static const char *outs[] = { "nul.bin", "ws.txt", "meta.txt", "nl.txt" };
                add(rng_chance(r, 1, 2) ? "x `cat /cfg/%s` y\n" : "x %%exec(cat /cfg/%s) y\n", outs[rng_below(r, 4)]);
            }
            else if (c < 80 && rng_chance(r, 1, 2)) {
                /* shapes picked from the coverage report (tools/coverage.py): built-ins called with the wrong number of words, the
                   "%name )" spelling, built-ins that yield an empty text, a directive without its argument, a directory that is not there,
                   a variable deleted from the middle of the list */
                static const char *odd[] = { "x %get() y", "x %get(a b c) y", "%put()", "%put(k1)", "%put(k1 v w)", "x %dirscan() y", "x %dirscan(a b) y", "x %dirscan(/cfg/nodir) y",
                    "x %version ) y", "x %appname ) tail) y", "x %get ) k1) y", "%put ) k2 v2)", "x %random ) y", "x %random() y", "x %get($NOSUCH) y", "x %get(nokey) y",
                    "%include", "%include ", "% include", "%preproc", "%", "%%", "x %", "%put(k2 mid)", "%put('k2\" b' one)", "%put('k2\" b' one)", "%put(\"k2\\\\\" b)", "%put(k0 first)", "%put(k0 first)\n%put('k2\" b' one)\n%put(\"k2\\\\\" b)\nx %get(k0) y %get('k2\" b' gone)", "%put(k1 '')\nx %get(k1) y\nz%get(k1)", "%put(k3 \"\")\n%get(k3)", "%put(k1 '')", "x %get(k1) y" };
                add("%s\n", odd[rng_below(r, sizeof(odd) / sizeof(odd[0]))]);
            }
            else if (c < 80) add("%%xb%d(arg %d)\n", rng_range(r, 7, 12), q);
            else if (c < 83) add("%%nosuchbuiltin(a b)\n");
            else if (c < 86) add("v $V1 ${HOME} $(EMPTY) $NOSUCH ~ ~/x \\t\\n \n");
            else if (c < 88) add("%%random(a b c d)\n");
            else if (c < 90) add("%%version() %%appname()\n");
            else if (c < 92 || (bigdir && c < 97)) {
                if (rng_chance(r, 1, 6)) {
                    /* the same directory by a path of a few thousand bytes: whatever is built from "dir/name" has to cope */
                    static const int ks[] = { 100, 1000, 1900, 1950, 2020 };
                    int kk = ks[rng_below(r, 5)];
                    add("x %%dirscan(/cfg/d");
                    for (int z = 0; z < kk; z++) add("/.");
                    add(")\n");
                } else add("%s%%dirscan(/cfg/d)\n", rng_chance(r, 1, 3) ? "x " : "");
            }
            else if (c < 94 && allow_exec) {
                if (rng_chance(r, 1, 6)) {
                    /* a command just as long as its buffer allows: "command >tempfile" of CONFIG_BUFF bytes, give or take a few */
                    long want = 20480 - 2 - g_outlen + rng_range(r, -4, 3);
                    add("v `echo ");
                    for (long z = 5; z < want; z++) add("p");
                    add("` w\n");
                } else if (rng_chance(r, 1, 5)) { static const int bl[] = { 1, 100, 4096, 20470, 20478, 20479, 20480, 20481, 30000 }; add("v %%exec(big %d) w\n", bl[rng_below(r, 9)]); }
                else add(rng_chance(r, 1, 2) ? "%%exec(echo hello   world)\n" : "x `echo back quoted` y\n");
            }
            else if (c < 94) { int n = rng_range(r, 120, 140); add(rng_chance(r, 1, 2) ? "n ${" : "n $"); for (int i = 0; i < n; i++) add("N"); add("} x\n"); }
            else if (c < 95 && allow_exec && (level == 0 || rng_chance(r, 1, 3)) && !(level == 2 && selfinc)) {      /* (in included files too: a preprocessed file above another one on the stack) */
                /* not in a file that includes itself, though: the preprocessed stream is the whole file again, its %include line with it, so
                   every level would include itself twice and the parse, 255 levels deep, would take 2^255 steps to come back */
                preproc_here = 1;
                if (rng_chance(r, 1, 5)) { int n = rng_range(r, 4040, 4100); add("%%preproc cat"); for (int z = 0; z < n; z++) add("t"); add("\n"); }      /* command + file names around PATH_MAX */
                else add("%%preproc cat\n");
            }
            else if (c < 95 && rng_chance(r, 1, 3)) {
                static const int ln[] = { 250, 4090, 4096, 4100, 20440 };
                int n = ln[rng_below(r, 5)];
                add(rng_chance(r, 1, 2) ? "%%include " : "begin ");
                for (int z = 0; z < n; z++) add("n");
                add("\n");
            }      /* (re-reading a self-including file doubles the recursion at every level) */
            else if (c < 97) add("trailing backslash \\\n");
            else add("unterminated ${V1 and $(HOME\n");
        }
        if (rng_chance(r, 1, 6) && gbn) gbn--;
        if (rng_chance(r, 1, 30)) for (int q = 0; q < 300; q++) add("begin c%d\n", 1 + q % 5);
    }
    o = plan_op(p, 0, "file", 0); op_str(o, name, strlen(name)); op_str2(o, gb, gbn);
}
static void gen_path(rng_t *r, int regime)
{
    static const int lens[] = { 1, 5, 200, 254, 255, 256, 4090, 4095, 4096, 4097, 5000, 32766, 32767, 32768, 33000, 40000 };
    size_t n = (size_t)lens[rng_below(r, regime ? 16 : 6)];
    for (size_t i = 0; i < n && gbn < sizeof(gb) - 1; i++) gb[gbn++] = (unsigned char)(rng_chance(r, 1, 40) ? '/' : 'a' + rng_below(r, 6));
}
static void gen_c11(plan_t *p, rng_t *r)
{
    int ncycles = rng_chance(r, 1, 2) ? 1 : rng_range(r, 2, 4), allow_exec = rng_chance(r, 1, 4), repeat = ncycles > 1 && rng_chance(r, 1, 2), vars = rng_chance(r, 1, 2);
    int first_ops_start = 0, first_ops_end = 0;
    op_t *o;
    plan_knob(p, "alloc.fill", rng_range(r, 0, 4));
    plan_knob(p, "alloc.zero", rng_chance(r, 1, 4)); plan_knob(p, "alloc.realloc0", rng_chance(r, 1, 4));      /* the two readings ISO C allows for a request of no bytes */
    plan_knob(p, "alloc.realloc", rng_range(r, 0, 2));
    plan_knob(p, "alloc.reuse", rng_range(r, 0, 2));
    plan_knob(p, "mkstemp.mode", rng_chance(r, 1, 2) ? 0600 : 0666);
    if (rng_chance(r, 1, 6)) plan_knob(p, "env.meta", rng_range(r, 1, 8));          /* an environment value that looks like something to expand or to run: it is inserted as it is */
    if (rng_chance(r, 1, 3)) plan_knob(p, "dir.grows", 1);                           /* a directory that is read twice has gained a file with a long name by the second time */
    if (rng_chance(r, 1, 8)) plan_knob(p, "fdopen.fail", rng_range(r, 1, 3));       /* the k-th fdopen() of the run finds no stream to be had */
    if (rng_chance(r, 1, 8)) plan_knob(p, "fchmod.fail", rng_range(r, 1, 3));       /* the k-th fchmod() is refused */
    plan_knob(p, "tmpdir", rng_chance(r, 1, 3) ? (rng_chance(r, 1, 3) ? rng_range(r, 2, 3) : rng_chance(r, 1, 4) ? rng_range(r, 4, 5) : 1) : 0);
    if (plan_get(p, "tmpdir", 0) == 2 || plan_get(p, "tmpdir", 0) == 3) { static const int tl[] = { 200, 225, 230, 235, 238, 239, 240, 241, 242, 243, 244, 245, 249, 250, 255, 256, 300 }; plan_knob(p, "tmpdir.len", tl[rng_below(r, 17)]); }
    if (rng_chance(r, 1, 10)) { static const int el[] = { 120, 127, 128, 300, 4096, 20470, 20478, 20479, 20480, 20481, 30000, 65000 }; plan_knob(p, rng_chance(r, 1, 2) ? "env.v1len" : "env.homelen", el[rng_below(r, 12)]); }
    g_allow_exec = allow_exec;
    g_outlen = (plan_get(p, "tmpdir", 0) == 2 || plan_get(p, "tmpdir", 0) == 3 ? plan_get(p, "tmpdir.len", 240) : 4) + 1 + 17;                  /* "<dir>/Eterm-exec-XXXXXX" */
    plan_knob(p, "budget", 3000000);       /* a self-including file legitimately recurses 255 levels deep */
    if (rng_chance(r, 1, 10)) {
        /* a directory whose listing is as long as the line buffer, give or take a few bytes */
        static const int nls[] = { 255, 255, 254, 200, 128, 100 };
        plan_knob(p, "dir.total", rng_chance(r, 1, 3) ? 20480 : rng_chance(r, 1, 8) ? 41000 : rng_range(r, 20480 - 6, 20480 + 6));
        plan_knob(p, "dir.namelen", nls[rng_below(r, 6)]);
        bigdir = 1;
    } else bigdir = 0;
    if (!bigdir && rng_chance(r, 1, 5)) plan_knob(p, "dir.ghost", 1);
    if (rng_chance(r, 1, 10)) plan_knob(p, "exec.readfail", rng_range(r, 1, 2));      /* a command's output cannot be read back */      /* names in the directory that stat() cannot follow */
    for (int c = 0; c < ncycles && p->nops < PLAN_MAXOPS - 40; c++) {
        plan_op(p, 0, "init", 0);
        if (repeat && c > 0) {
            /* replay the body of the first cycle */
            for (int q = first_ops_start; q < first_ops_end && p->nops < PLAN_MAXOPS - 4; q++) {
                op_t *src = &p->ops[q], *d = plan_op(p, 0, src->kind, 0);
                d->na = src->na; memcpy(d->a, src->a, sizeof(d->a));
                if (src->has_s) op_str(d, src->s, src->slen);
                if (src->has_t) op_str2(d, src->t, src->tlen);
                for (int f = 0; f < src->nf; f++) op_fault(d, src->f[f]);
            }
            plan_op(p, 0, "free", 1, 1L);
            continue;
        }
        if (c == 0) first_ops_start = p->nops;
        plan_op(p, 0, "ctx", 2, (long)(rng_chance(r, 1, 10) ? rng_range(r, 150, 270) : rng_range(r, 0, 12)), (long)rng_chance(r, 1, 6));
        if (rng_chance(r, 1, 2)) { static const int nb[] = { 1, 2, 3, 4, 5, 6, 13, 33, 73, 153, 240 }; plan_op(p, 0, "builtin", 1, (long)nb[rng_below(r, rng_chance(r, 1, 6) ? 11 : 6)]); }      /* past the second, third ... doubling of the table too */
        if (allow_exec) {
            static const struct { const char *n; const char *d; size_t l; } of[] = { { "nul.bin", "\0abc", 4 }, { "ws.txt", "  \n\t \n", 6 }, { "meta.txt", "it's \"q\" %get(k1) `x` $V1 ~\n", 28 }, { "nl.txt", "\n", 1 } };
            for (int z = 0; z < 4; z++) { o = plan_op(p, 0, "file", 0); op_str(o, of[z].n, strlen(of[z].n)); op_str2(o, of[z].d, of[z].l); }
        }
        gen_conf_file(p, r, "root.cfg", allow_exec, vars);
        if (rng_chance(r, 1, 2)) gen_conf_file(p, r, "inc.cfg", allow_exec, vars);
        if (rng_chance(r, 1, 3)) gen_conf_file(p, r, "sub/s.cfg", allow_exec, vars);
        { int np = rng_range(r, 1, 3);
          for (int q = 0; q < np; q++) {
              if (q && rng_chance(r, 1, 3)) {
                  /* registrations do not all happen before the first parse: more built-ins (the table grows and may move) and more
                     contexts arrive between two parses */
                  static const int nb[] = { 1, 2, 3, 4, 5, 6, 7, 11, 13 };
                  if (rng_chance(r, 2, 3)) plan_op(p, 0, "builtin", 1, (long)nb[rng_below(r, 9)]);
                  if (rng_chance(r, 1, 3)) plan_op(p, 0, "ctx", 2, (long)rng_range(r, 1, 12), 0L);
              }
              o = plan_op(p, 0, "parse", 1, (long)rng_below(r, 3)); op_str(o, "root.cfg", 8);
              if (rng_chance(r, 1, 3)) { static const int lims[] = { 1, 2, 7, 255, 256, 4095, 4096 }; for (int f = 0; f < 4; f++) op_fault(o, rng_chance(r, 1, 10) ? FAULT(FC_READ, FO_ETRANSIENT, 0) : FAULT(FC_READ, FO_SHORT, lims[rng_below(r, 7)])); }      /* (one read in ten of these fails once with EINTR and the stream works again) */
              if (rng_chance(r, 1, 8)) op_fault(o, FAULT(FC_OPEN, rng_chance(r, 1, 2) ? FO_ENOENT : FO_EMFILE, 0));
          } }
        if (rng_chance(r, 1, 3)) {
            int flags = (int)rng_below(r, 4);
            gbn = 0; gen_path(r, rng_chance(r, 1, 2));
            o = plan_op(p, 0, "find", 1, (long)flags); op_str(o, gb, gbn);
            gbn = 0; gen_path(r, rng_chance(r, 1, 2)); if (gbn < sizeof(gb) - 2) gb[gbn++] = 1;
            { int comps = rng_range(r, 0, 4); for (int q = 0; q < comps; q++) { if (q && gbn < sizeof(gb) - 2) gb[gbn++] = ':'; if (rng_chance(r, 1, 6)) { /* an empty component: "::", a leading or a trailing ':' */ } else if (rng_chance(r, 1, 3)) { if (gbn + 4 < sizeof(gb)) { memcpy(gb + gbn, "/cfg", 4); gbn += 4; } } else gen_path(r, rng_chance(r, 1, 3)); } }
            if (rng_chance(r, 1, 8) && gbn < sizeof(gb) - 2) gb[gbn++] = ':';
            op_str2(o, gb, gbn);
        }
        if (rng_chance(r, 1, 4)) {
            /* lengths chosen by arithmetic: "dir/file" of exactly L characters around PATH_MAX, search-path components that
               just fit, exactly fill, or just overflow what is left of the path buffer */
            static const int Ls[] = { 10, 100, 2000, 4000, 4088, 4090, 4091, 4092, 4093, 4094, 4095, 4096, 4097 };
            int L = Ls[rng_below(r, 13)], f = rng_range(r, 1, L > 300 ? 300 : L > 2 ? L - 2 : 1), d = L - 1 - f, M = 4096 - L - 2, comps = rng_range(r, 1, 4);
            if (d < 1) { d = 1; f = L - 2 > 0 ? L - 2 : 1; }
            gbn = 0; for (int q = 0; q < f && gbn < sizeof(gb) - 1; q++) gb[gbn++] = (unsigned char)('a' + rng_below(r, 6));
            o = plan_op(p, 0, "find", 1, 0L); op_str(o, gb, gbn);
            gbn = 0; gb[gbn++] = '/'; for (int q = 1; q < d && gbn < sizeof(gb) - 1; q++) gb[gbn++] = (unsigned char)(q % 200 == 0 ? '/' : 'a' + rng_below(r, 6));
            gb[gbn++] = 1;
            for (int q = 0; q < comps; q++) {
                static const int deltas[] = { -2, -1, 0, 1, 2 };
                int cl = rng_chance(r, 1, 2) ? M + deltas[rng_below(r, 5)] : rng_chance(r, 1, 2) ? rng_range(r, 1, 40) : rng_chance(r, 1, 2) ? 32767 + deltas[rng_below(r, 5)] : 4096 + deltas[rng_below(r, 5)];
                if (cl < 1) cl = 1;
                if (q && gbn < sizeof(gb) - 2) gb[gbn++] = ':';
                if (gbn < sizeof(gb) - 2) gb[gbn++] = '/';
                for (int z = 1; z < cl && gbn < sizeof(gb) - 2; z++) gb[gbn++] = (unsigned char)(z % 250 == 0 ? '/' : 'p');
            }
            op_str2(o, gb, gbn);
        }
        if (rng_chance(r, 1, 4)) {
            if (rng_chance(r, 1, 2)) { o = plan_op(p, 0, "find", 1, 1L); op_str(o, "one", 3); { static const char t1[] = "x\001/tmp:/nonexistent/:/cfg/d"; op_str2(o, t1, sizeof(t1) - 1); } }     /* found through the search path */
            else { o = plan_op(p, 0, "find", 1, 0L); op_str(o, "one", 3); { static const char t2[] = "d\001/tmp:/cfg"; op_str2(o, t2, sizeof(t2) - 1); } }                               /* found directly as dir/file */
        }
        if (rng_chance(r, 1, 3)) { o = plan_op(p, 0, "tempfile", 1, (long)(rng_chance(r, 1, 4) ? rng_range(r, 1, 40) : 256)); gbn = 0; add_bytes(r, (size_t)rng_range(r, 0, rng_chance(r, 1, 5) ? 250 : 12), 2); op_str(o, gb, gbn); }
        if (rng_chance(r, 1, 4)) { static const int nb[] = { 1, 2, 3, 4, 5, 6, 7 }; plan_op(p, 0, "builtin", 1, (long)nb[rng_below(r, 7)]); }      /* ... and between the parses and a direct expansion */
        if (rng_chance(r, 1, 3)) { o = plan_op(p, 0, "expand", 0); gbn = 0; add_bytes(r, (size_t)(rng_chance(r, 1, 6) ? rng_range(r, 20000, 20479) : rng_range(r, 0, 80)), 1); for (size_t q = 0; q < gbn; q++) if (gb[q] == '`' && !allow_exec) gb[q] = '.'; op_str(o, gb, gbn); }
        if (c == 0) first_ops_end = p->nops;
        plan_op(p, 0, "free", 1, (long)(repeat ? 1 : 0));
    }
}

const engine_t confsim_c11_engine = { "confsim-safety", "C11", gen_c11, exec_c11 };
