/* vobj: instrumented element class */
#include "sim.h"
#include "vobj.h"
#include <string.h>

long vobj_dups, vobj_dels, vobj_comps, vobj_live;
static long next_serial;
#define MAXSER 65536
static unsigned char live_serial[MAXSER];

static vobj_t v_new(void);
static spif_bool_t v_init(vobj_t self);
static spif_bool_t v_done(vobj_t self);
static spif_bool_t v_del(vobj_t self);
static spif_str_t v_show(vobj_t self, spif_charptr_t name, spif_str_t buff, size_t indent);
static spif_cmp_t v_comp(vobj_t self, vobj_t other);
static vobj_t v_dup(vobj_t self);
static spif_classname_t v_type(vobj_t self);

static spif_const_class_t v_class = {
    (spif_classname_t) "!vobj_t!",
    (spif_func_t) v_new, (spif_func_t) v_init, (spif_func_t) v_done, (spif_func_t) v_del,
    (spif_func_t) v_show, (spif_func_t) v_comp, (spif_func_t) v_dup, (spif_func_t) v_type
};
spif_class_t vobj_class = &v_class;
/* a second class with the same methods: objects of the two classes compare with each other by key, as a str and a url do by text */
static spif_const_class_t v2_class = {
    (spif_classname_t) "!vobj2_t!",
    (spif_func_t) v_new, (spif_func_t) v_init, (spif_func_t) v_done, (spif_func_t) v_del,
    (spif_func_t) v_show, (spif_func_t) v_comp, (spif_func_t) v_dup, (spif_func_t) v_type
};
spif_class_t vobj2_class = &v2_class;

void vobj_reset(void) { vobj_dups = vobj_dels = vobj_comps = vobj_live = 0; next_serial = 0; memset(live_serial, 0, sizeof(live_serial)); }
int vobj_is_live_serial(long s) { return s > 0 && s < MAXSER && live_serial[s]; }

int vobj_valid(const void *p)
{
    const struct vobj_struct *v = p;
    return p && sa_readable(p, sizeof(*v)) && v->magic == VOBJ_MAGIC && (v->cls == vobj_class || v->cls == vobj2_class);
}
static vobj_t alloc_v(long key, long root)
{
    vobj_t v = sim_malloc(sizeof(*v));
    v->cls = vobj_class; v->magic = VOBJ_MAGIC; v->key = key;
    v->serial = ++next_serial;
    v->root = root ? root : v->serial;
    if (v->serial < MAXSER) live_serial[v->serial] = 1;
    vobj_live++;
    return v;
}
vobj_t vobj_new(long key) { return alloc_v(key, 0); }
vobj_t vobj_new2(long key) { vobj_t v = alloc_v(key, 0); v->cls = vobj2_class; return v; }
static vobj_t v_new(void) { return alloc_v(0, 0); }
static spif_bool_t v_init(vobj_t self) { if (self->cls != vobj2_class) self->cls = vobj_class; self->magic = VOBJ_MAGIC; return TRUE; }
static spif_bool_t v_done(vobj_t self) { (void)self; return TRUE; }
static spif_bool_t v_del(vobj_t self)
{
    if (!vobj_valid(self)) sim_fail("INVARIANT(element-deleted-twice-or-wild)", "the library called del() on a pointer that is not a live element");
    vobj_dels++; vobj_live--;
    if (self->serial < MAXSER) live_serial[self->serial] = 0;
    self->magic = 0;
    sim_free(self);
    return TRUE;
}
static spif_str_t v_show(vobj_t self, spif_charptr_t name, spif_str_t buff, size_t indent)
{
    char tmp[128];
    (void)indent;
    snprintf(tmp, sizeof(tmp), "(vobj) %s: key %ld\n", (const char *)name, self ? self->key : -1);
    if (!buff) return spif_str_new_from_ptr((spif_charptr_t)tmp);
    spif_str_append_from_ptr(buff, (spif_charptr_t)tmp);
    return buff;
}
static spif_cmp_t v_comp(vobj_t self, vobj_t other)
{
    vobj_comps++;
    SPIF_OBJ_COMP_CHECK_NULL(self, other);
    if (!vobj_valid(self)) sim_fail("INVARIANT(comp-on-dead-element)", "the library compared an element that is not live");
    if (!vobj_valid(other)) {
        /* a pair compared with a bare key reaches us as (key, key); anything else is a stale pointer */
        if (sa_readable(other, sizeof(void *)) && SPIF_OBJ_IS_OBJPAIR(other)) return SPIF_OBJ_COMP(self, SPIF_OBJPAIR(other)->key);
        sim_fail("INVARIANT(comp-on-dead-element)", "the library compared against an element that is not live");
    }
    return self->key < other->key ? SPIF_CMP_LESS : self->key > other->key ? SPIF_CMP_GREATER : SPIF_CMP_EQUAL;
}
static vobj_t v_dup(vobj_t self)
{
    if (!vobj_valid(self)) sim_fail("INVARIANT(dup-on-dead-element)", "the library duplicated an element that is not live");
    vobj_dups++;
    { vobj_t c = alloc_v(self->key, self->root); c->cls = self->cls; return c; }
}
static spif_classname_t v_type(vobj_t self) { return (spif_classname_t) (self && self->cls == vobj2_class ? v2_class.classname : v_class.classname); }
