/* confsim / C10: config value expansion is a pure function of (line, environment, variable store).
 * Reference expander written from the rules in the statement (DESIGN B.7); every plan is executed twice with
 * different heap garbage and the two passes must agree byte for byte. */
#define _GNU_SOURCE
#include "sim.h"
#include "simfd.h"
#include "simfs.h"
#include "confsim.h"
#include <string.h>
#include <stdlib.h>
#include <ctype.h>
#include <strings.h>

/* ------------------------------------------------------------------ reference */
typedef struct { char *b; size_t n, cap; } sb_t;
static void sb_put(sb_t *s, const char *p, size_t n) { if (s->n + n + 1 > s->cap) { s->cap = (s->n + n + 1) * 2; s->b = realloc(s->b, s->cap); } memcpy(s->b + s->n, p, n); s->n += n; s->b[s->n] = 0; }
static void sb_ch(sb_t *s, char c) { sb_put(s, &c, 1); }

#define NVAR 24
static struct { char k[64]; char v[2048]; int set; int unc; } vars[NVAR];      /* unc: the model no longer knows this key's value (a put whose outcome the statement leaves open) */
static char put_keys[8][64]; static int nput_keys;      /* keys put during the value being expanded */      /* (values of up to two kilobytes are modelled; longer ones make that key uncertain) */
static int dont_care;                      /* the input uses a construct whose value the statement leaves open */
static int put_seen, store_uncertain, tmpdir_odd, len_unknown, quoted_word_seen;
static int tilde_nohome_seen, tilde_nohome_drop;      /* a tilde with no home directory: kept (0) or dropped (1), both are accepted */
static int rand_choice, random_calls, random_words, store_unknown;      /* a %put in an expansion that was cut at the limit may or may not have happened */
static const char *ref_getvar(const char *k) { for (int i = 0; i < NVAR; i++) if (vars[i].set && !strcmp(vars[i].k, k)) { if (vars[i].unc) dont_care = 1; return vars[i].v; } return NULL; }
static void ref_mark_uncertain(const char *k)
{
    for (int i = 0; i < NVAR; i++) if (vars[i].set && !strcmp(vars[i].k, k)) { vars[i].unc = 1; return; }
    for (int i = 0; i < NVAR; i++) if (!vars[i].set) { vars[i].set = 1; vars[i].unc = 1; snprintf(vars[i].k, sizeof(vars[i].k), "%s", k); vars[i].v[0] = 0; return; }
    store_unknown = 1;
}
static void ref_putvar(const char *k, const char *v)
{
    put_seen = 1;
    if (strlen(k) >= sizeof(vars[0].k)) { dont_care = 1; store_unknown = 1; return; }
    if (nput_keys < 8) snprintf(put_keys[nput_keys++], 64, "%s", k); else store_unknown = 1;
    if (dont_care) { ref_mark_uncertain(k); return; }          /* a value that itself rests on something the model does not know (an uncertain key read back, an open construct in front) */
    if (strlen(v) >= sizeof(vars[0].v)) { dont_care = 1; ref_mark_uncertain(k); return; }
    for (int i = 0; i < NVAR; i++) if (vars[i].set && !strcmp(vars[i].k, k)) { snprintf(vars[i].v, sizeof(vars[i].v), "%s", v); vars[i].unc = 0; return; }
    for (int i = 0; i < NVAR; i++) if (!vars[i].set) { vars[i].set = 1; snprintf(vars[i].k, sizeof(vars[i].k), "%s", k); snprintf(vars[i].v, sizeof(vars[i].v), "%s", v); return; }
    dont_care = 1; store_unknown = 1;          /* more names than the model holds: from here on it cannot say what the store contains */
}
#define WORDMAX 2048
static int words(const char *s, char w[4][WORDMAX])
{
    int n = 0;
    while (*s) {
        size_t k = 0;
        while (*s && isspace((unsigned char)*s)) s++;
        if (!*s) break;
        if (n >= 4) { dont_care = 1; return n; }
        if (*s == '"' || *s == '\'') {
            /* a quoted word, as the library's word splitter sees it: everything up to the matching quote, quotes dropped.
               Backslashes, the other kind of quote inside, a missing closing quote or text glued to it: not modelled */
            char q = *s++;
            while (*s && *s != q && k < WORDMAX - 1) { if (*s == '\\' || *s == '"' || *s == '\'') { dont_care = 1; len_unknown = 1; } w[n][k++] = *s++; }
            if (*s != q || (s[1] && !isspace((unsigned char)s[1]))) { dont_care = 1; len_unknown = 1; return 0; }
            s++;
            w[n++][k] = 0;
            quoted_word_seen = 1;
            continue;
        }
        while (*s && !isspace((unsigned char)*s) && k < WORDMAX - 1) { if (*s == '"' || *s == '\'') { dont_care = 1; len_unknown = 1; } w[n][k++] = *s++; }
        if (*s && !isspace((unsigned char)*s)) { dont_care = 1; len_unknown = 1; while (*s && !isspace((unsigned char)*s)) s++; }    /* words beyond the model's 127 characters: not modelled */
        w[n++][k] = 0;
    }
    return n;
}
static void ref_expand(const char *s, sb_t *o, int depth);
static void ref_builtin(const char *name, const char *rawargs, sb_t *o, int depth)
{
    sb_t a = { 0 };
    static char w[4][WORDMAX];
    int n;
    sb_put(&a, "", 0);
    ref_expand(rawargs, &a, depth + 1);          /* arguments are expanded first, innermost first */
    if (!strcasecmp(name, "put")) {
        n = words(a.b, w);
        if (n == 2) ref_putvar(w[0], w[1]);
        else if (dont_care) { put_seen = 1; if (n >= 1 && strlen(w[0]) < 60) { if (nput_keys < 8) snprintf(put_keys[nput_keys++], 64, "%s", w[0]); ref_mark_uncertain(w[0]); } else store_unknown = 1; }   /* the words rest on something the model does not know: the put may have happened, with a key it can only guess */
        /* else: wrong arity: error, nothing */
    }
    else if (!strcasecmp(name, "get")) {
        n = words(a.b, w);
        if (n == 1 || n == 2) { const char *v = ref_getvar(w[0]); if (v) sb_put(o, v, strlen(v)); else if (n == 2) sb_put(o, w[1], strlen(w[1])); }
    }
    else if (!strcasecmp(name, "version")) sb_put(o, "1.0", 3);
    else if (!strcasecmp(name, "appname")) sb_put(o, "simrun-1.0", 10);
    else if (!strcasecmp(name, "random")) {
        /* one of its words: which one is the generator's business, so the executor tries every choice for the first call whose words
           differ (a second such call in one expansion is not modelled) */
        n = words(a.b, w);
        if (n >= 1) {
            int distinct = 0, pick = 0;
            for (int i = 1; i < n; i++) if (strcmp(w[i], w[0])) distinct = 1;
            if (distinct) { if (random_calls++) dont_care = 1; else { random_words = n; pick = rand_choice < n ? rand_choice : 0; } }
            sb_put(o, w[pick], strlen(w[pick]));
        }
    }
    else if (!strcasecmp(name, "exec")) {
        if (tmpdir_odd) dont_care = 1;           /* what a command yields when its temporary file cannot be created is not specified */
        if (a.n > CONFIG_BUFF - 300) { dont_care = 1; len_unknown = 1; }      /* nor whether a command that (with its redirection) barely fits a line buffer is run at all */
        /* simulated command interpreter: "echo TEXT" prints TEXT; output is whitespace-condensed */
        const char *c = a.b;
        while (*c == ' ') c++;
        if (!strncmp(c, "echo ", 5)) {
            const char *t = c + 5; int sp = 0, any = 0;
            if (strchr(t, '>') || strchr(t, '<')) dont_care = 1;
            for (; *t; t++) { if (isspace((unsigned char)*t)) { sp = any; } else { if (sp) sb_ch(o, ' '); sp = 0; any = 1; sb_ch(o, *t); } }
        } else if (!strncmp(c, "big ", 4)) {
            /* the simulated command prints N letters (no blanks, so condensing leaves them alone) */
            long n = atol(c + 4);
            if (n > 100000) n = 100000;
            for (long i = 0; i < n; i++) sb_ch(o, 'x');
        } else if (!strncmp(c, "true", 4) || !strncmp(c, "fail", 4)) {
            /* commands without output */
        } else { dont_care = 1; len_unknown = 1; }
    } else dont_care = 1;
    free(a.b);
}
#include <dirent.h>
DIR *sim_opendir(const char *path);
struct dirent *sim_readdir(DIR *d);
int sim_closedir(DIR *d);
static void ref_dirscan(const char *args, sb_t *o)
{
    /* every regular file of the directory, each name followed by a blank, in the order the directory lists them (the
       simulated directory lists an unchanged directory in the same order every time, as a real one does) */
    static char w[4][WORDMAX];
    sb_t l = { 0 };
    DIR *d;
    struct dirent *de;
    if (strpbrk(args, "$~%\\`'\"") || words(args, w) != 1) { dont_care = 1; return; }
    d = sim_opendir(w[0]);
    if (!d) { probe_hit("dirscan_no_directory"); return; }        /* no directory: the call yields nothing */
    sb_put(&l, "", 0);
    while ((de = sim_readdir(d))) if (de->d_type == DT_REG) { sb_put(&l, de->d_name, strlen(de->d_name)); sb_ch(&l, ' '); }
    sim_closedir(d);
    if (l.n >= CONFIG_BUFF - 1) { dont_care = 1; probe_hit("dirscan_listing_over_limit"); }    /* where a listing that does not fit is cut is not specified */
    else probe_hit("dirscan_listing_modelled");
    sb_put(o, l.b, l.n);
    free(l.b);
}
static void ref_expand(const char *s, sb_t *o, int depth)
{
    int in_single = 0, in_double = 0;
    static const char *bi[] = { "appname", "version", "exec", "random", "get", "put", "dirscan" };
    if (depth > 4) { dont_care = 1; return; }
    for (const char *p = s; *p; p++) {
        char c = *p;
        if (c == '\\') {
            if (!p[1]) { dont_care = 1; sb_ch(o, c); break; }
            if (!in_single) {
                char e = p[1], r;
                switch (e) { case 'n': r = '\n'; break; case 'r': r = '\r'; break; case 't': r = '\t'; break; case 'b': r = '\b'; break; case 'f': r = '\f'; break;
                             case 'a': r = '\a'; break; case 'v': r = '\v'; break; case 'e': r = '\033'; break;
                             default: r = e; if (isalnum((unsigned char)e)) dont_care = 1; break; }      /* a letter or digit that names no control character: not specified (a backslash in front of punctuation quotes it) */
                sb_ch(o, r); p++;
            } else if (p[1] == '\'') { sb_ch(o, '\''); p++; }
            else { sb_ch(o, c); sb_ch(o, p[1]); p++; }
        } else if (c == '~') {
            const char *h = getenv("HOME");
            if (!in_single && !in_double && h && *h) sb_put(o, h, strlen(h));
            else if (!in_single && !in_double) {
                /* no home directory to put there (HOME unset or empty): whether the tilde stays or becomes that nothing is not
                   specified -- but it is one or the other, and the text around it is what it was */
                tilde_nohome_seen = 1;
                if (!tilde_nohome_drop) sb_ch(o, c);
            } else sb_ch(o, c);
        } else if (c == '$') {
            if (in_single) { sb_ch(o, c); continue; }
            {
                char name[200]; size_t k = 0; const char *q = p + 1; char close = 0; const char *v;
                if (*q == '{') close = '}'; else if (*q == '(') close = ')';
                if (close) { q++; while (*q && *q != close && k < 199) name[k++] = *q++; if (*q != close) { dont_care = 1; if (strcasestr(p, "%put")) store_unknown = 1; } else q++; }
                else while ((isalnum((unsigned char)*q) || *q == '_') && k < 199) name[k++] = *q++;
                name[k] = 0;
                if (k > 126) { dont_care = 1; if (strcasestr(p, "%put")) store_unknown = 1; }      /* a name beyond the 127 characters the scanner takes: where it resumes is not modelled */
                v = k ? getenv(name) : NULL;
                if (!k && !close) dont_care = 1;                  /* a lone dollar sign */
                if (v && *v) sb_put(o, v, strlen(v));
                p = q - 1;
            }
        } else if (c == '%') {
            size_t l = 0; int k;
            if (in_single) dont_care = 1;                          /* the statement does not say whether calls are made inside single quotes */
            for (k = 0; k < 7; k++) { l = strlen(bi[k]); if (!strncasecmp(p + 1, bi[k], l) && (p[1 + l] == '(' || (p[1 + l] == ' ' && p[2 + l] == ')'))) break; }
            if (k < 7 && p[1 + l] != '(') { dont_care = 1; len_unknown = 1; if (strcasestr(p, "put")) store_unknown = 1; }      /* the "%name )" spelling: what it takes for its arguments is not stated */
            if (k == 7) { dont_care = 1; len_unknown = 1; if (strcasestr(p, "%put")) store_unknown = 1; sb_ch(o, c); continue; }   /* unknown %word (how much of what follows it swallows is not said either) */
            {
                const char *q = p + 1 + l, *start; int lvl = 1; char *args;
                if (*q != '(') q++;
                q++; start = q;
                while (*q && lvl) { if (*q == '(') lvl++; else if (*q == ')') lvl--; q++; }
                if (lvl) { dont_care = 1; return; }
                args = strndup(start, (size_t)(q - 1 - start));
                if (k == 6) ref_dirscan(args, o);
                else ref_builtin(bi[k], args, o, depth);
                free(args);
                p = q - 1;
            }
        } else if (c == '`') {
            if (in_single) { sb_ch(o, c); continue; }
            {
                const char *q = strchr(p + 1, '`'); char *cmd;
                if (!q) { dont_care = 1; store_unknown = 1; return; }        /* never closed: whether the rest still runs as a command (with its %put calls) is not said */
                cmd = strndup(p + 1, (size_t)(q - p - 1));
                ref_builtin("exec", cmd, o, depth);
                free(cmd);
                p = q;
            }
        } else if (c == '"') { if (!in_single) in_double = !in_double; sb_ch(o, c); }
        else if (c == '\'') { if (in_double) dont_care = 1; in_single = !in_single; sb_ch(o, c); }      /* an apostrophe inside double quotes: whether it opens a single-quoted part is not said */
        else sb_ch(o, c);
    }
}

/* the reference expander for other engines (C09 checks that delivered values are expanded): result in a malloc'ed string,
   *dc set when the text uses a construct whose value the statement leaves open */
char *conf_ref_expand(const char *text, int *dc)
{
    sb_t o = { 0 };
    char *in = strdup(text);
    dont_care = 0; len_unknown = 0; tilde_nohome_seen = 0; tilde_nohome_drop = 0;
    sb_put(&o, "", 0);
    ref_expand(in, &o, 0);
    free(in);
    *dc = dont_care || tilde_nohome_seen || o.n >= CONFIG_BUFF - 1;
    return o.b;
}

/* ------------------------------------------------------------------ executor */
#define MAXRES 64
static char *pass_a[MAXRES];

static void one_pass(const plan_t *p, int pass)
{
    int nres = 0;
    memset(vars, 0, sizeof(vars));
    store_uncertain = 0;
    tmpdir_odd = plan_get(p, "tmpdir", 0) == 2 || plan_get(p, "tmpdir", 0) == 3 || plan_get(p, "fdopen.fail", 0) || plan_get(p, "fchmod.fail", 0) || plan_get(p, "exec.readfail", 0);
    conf_env_setup(p);
    simenv_set_rand_seed(p->seed | 1);              /* both passes see the same rand() sequence */
    { int f0 = (int)plan_get(p, "alloc.fill", FILL_A5); sa_set_fill(pass ? (f0 == FILL_FF ? FILL_A5 : FILL_FF) : f0); }      /* the second pass always runs on a different fill */
    spifconf_init_subsystem();
    for (int i = 0; i < p->nops; i++) {
        op_t *o = (op_t *)&p->ops[i];
        R.cur_op = o; R.cur_op_index = i; R.op_steps = 0;
        if (!strcmp(o->kind, "env") && o->has_s) {
            char nm[64], vl[256];
            snprintf(nm, sizeof(nm), "%.*s", (int)(o->slen < 60 ? o->slen : 60), (const char *)o->s);
            snprintf(vl, sizeof(vl), "%.*s", (int)(o->has_t ? (o->tlen < 250 ? o->tlen : 250) : 0), o->has_t ? (const char *)o->t : "");
            if (!nm[0] || strchr(nm, '=')) continue;
            if (o->a[0]) unsetenv(nm); else setenv(nm, vl, 1);
        } else if (!strcmp(o->kind, "builtin")) {
            for (int q = 0; q < (int)o->a[0] && q < 8; q++) { char nm[16]; snprintf(nm, sizeof(nm), "zz%d", q); spifconf_register_builtin(nm, NULL); }
        } else if (!strcmp(o->kind, "expand") && o->has_s) {
            char *b = sim_malloc(CONFIG_BUFF), *ret;
            size_t n = o->slen < CONFIG_BUFF - 1 ? o->slen : CONFIG_BUFF - 1;
            sb_t want = { 0 };
            memcpy(b, o->s, n); b[n] = 0;
            for (size_t q = 0; q < n; q++) if (!b[q]) b[q] = '.';
            int input_has_high_bytes = 0;
            for (size_t q = 0; q < n; q++) if ((unsigned char)b[q] >= 0x80) input_has_high_bytes = 1;
            char *orig = strdup(b);
            static unsigned char vars_before[sizeof(vars)];
            memcpy(vars_before, vars, sizeof(vars));
            dont_care = 0; put_seen = 0; nput_keys = 0; len_unknown = 0; rand_choice = 0; random_calls = 0; random_words = 0; store_unknown = 0; tilde_nohome_seen = 0; tilde_nohome_drop = 0;
            sb_put(&want, "", 0);
            { char *in = strdup(b); ref_expand(in, &want, 0); free(in); }
            if (store_uncertain && strcasestr(b, "%get")) dont_care = 1;
            if (store_unknown) store_uncertain = 1;
            if ((want.n >= CONFIG_BUFF - 1 || len_unknown) && put_seen) {
                /* a put in a value that was cut, or whose other parts the model does not follow: whether and with what it happened is open
                   -- for the keys it names; the rest of the store is as known as before */
                for (int q = 0; q < nput_keys; q++) ref_mark_uncertain(put_keys[q]);
                probe_hit("put_in_an_expansion_cut_at_the_limit");
            }
            paint_stack(pass ? 0xFF : 0x81, 90000);          /* the callee's frame alone is a 20 kB buffer, nested calls add theirs */
            ret = (char *)spifconf_shell_expand((spif_charptr_t)b);
            if (ret && !dont_care && tilde_nohome_seen && want.n < CONFIG_BUFF - 1 && (strlen(b) != want.n || memcmp(b, want.b, want.n))) {
                /* the other reading of a tilde without a home directory */
                if (random_calls) dont_care = 1;
                else {
                    static unsigned char vars_after[sizeof(vars)];
                    memcpy(vars_after, vars, sizeof(vars));
                    memcpy(vars, vars_before, sizeof(vars));
                    want.n = 0; put_seen = 0; len_unknown = 0; tilde_nohome_drop = 1;
                    sb_put(&want, "", 0);
                    { char *in = strdup(orig); ref_expand(in, &want, 0); free(in); }
                    tilde_nohome_drop = 0;
                    if (dont_care) memcpy(vars, vars_after, sizeof(vars));
                    probe_hit("tilde_without_home_other_reading");
                }
            }
            if (ret && !dont_care && random_calls == 1 && want.n < CONFIG_BUFF - 1 && (strlen(b) != want.n || memcmp(b, want.b, want.n))) {
                /* %random with differing words: any of them is right */
                for (int c = 1; c < random_words; c++) {
                    memcpy(vars, vars_before, sizeof(vars));
                    want.n = 0; dont_care = 0; put_seen = 0; len_unknown = 0; rand_choice = c; random_calls = 0;
                    sb_put(&want, "", 0);
                    { char *in = strdup(orig); ref_expand(in, &want, 0); free(in); }
                    if (strlen(b) == want.n && !memcmp(b, want.b, want.n)) break;
                }
                rand_choice = 0;
                probe_hit("random_picked_another_word");
            }
            free(orig);
            /* leftover memory shows as bytes no input can have produced: the inputs are plain ASCII, the fills and paints are not */
            if (ret) for (size_t q = 0; b[q] && q < CONFIG_BUFF; q++) if ((unsigned char)b[q] >= 0x80 && !input_has_high_bytes) sim_fail("MISMATCH(garbage-in-result)", "result byte %zu is 0x%02x: neither the input, the environment nor the variable store holds such a byte", q, (unsigned char)b[q]);
            if (ret) {
                size_t rl;
                if (ret != b) sim_fail("MISMATCH(expand-return)", "returned pointer is not the buffer that was passed in");
                if (!memchr(b, 0, CONFIG_BUFF)) sim_fail("INVARIANT(expand-terminated)", "result is not NUL-terminated within the line buffer");
                rl = strlen(b);
                if (rl >= CONFIG_BUFF) sim_fail("INVARIANT(expand-length)", "result is %zu characters", rl);
                if (want.n >= CONFIG_BUFF - 1) {
                    /* the text the rules define does not fit: where exactly it is cut is not specified, but what is
                       returned has to be a beginning of it, not something else */
                    probe_hit("result_hits_limit");
                    if (!dont_care && !random_calls) {
                        size_t d = 0;
                        while (d < rl && d < want.n && b[d] == want.b[d]) d++;
                        if (d != rl) sim_fail("MISMATCH(expand-cut)", "expanding \"%.40s...\" (result cut at the limit) gave %zu characters that are not a beginning of the text the rules define: first difference at %zu", (const char *)o->s, rl, d);
                        probe_hit("cut_result_is_a_prefix");
                    }
                    dont_care = 1;
                }
                if (!dont_care) {
                    probe_hit("value_checked");
                    if (rl != want.n || memcmp(b, want.b, rl)) {
                        size_t d = 0;
                        while (d < rl && d < want.n && b[d] == want.b[d]) d++;
                        sim_fail("MISMATCH(expand-value)", "expanding \"%.60s\" gave \"%.60s\" (%zu chars), the rules give \"%.60s\" (%zu chars); first difference at %zu", (const char *)o->s, b, rl, want.b, want.n, d);
                    }
                } else probe_hit("value_dont_care");
            } else { if (!dont_care) sim_fail("MISMATCH(expand-null)", "expansion of \"%.60s\" returned NULL", (const char *)o->s); }
            if (pass == 0 && !pass) tr_printf("expand %.40s -> %.40s", (const char *)o->s, ret ? b : "NULL");
            /* garbage differential */
            if (nres < MAXRES) {
                if (pass == 0) pass_a[nres] = strdup(ret ? b : "\001NULL");
                else { if (strcmp(pass_a[nres], ret ? b : "\001NULL")) sim_fail("MISMATCH(garbage-dependence)", "the same expansion under different heap/stack garbage gave \"%.50s\" and \"%.50s\"", pass_a[nres], ret ? b : "NULL"); free(pass_a[nres]); pass_a[nres] = NULL; }
                nres++;
            }
            free(want.b);
            sim_free(b);
            /* probes on the input */
            if (strstr((const char *)o->s, "${") && !strchr((const char *)o->s, '}')) probe_hit("unterminated_brace");
            if (o->slen && o->s[o->slen - 1] == '\\') probe_hit("backslash_at_end");
            { const char *d = strchr((const char *)o->s, '$'); if (d && d != (const char *)o->s) probe_hit("dollar_mid_line"); }
            if (strstr((const char *)o->s, "'~") || strstr((const char *)o->s, "\"~")) probe_hit("tilde_inside_quotes");
            { int lv = 0, mx = 0; for (size_t q = 0; q < o->slen; q++) { if (o->s[q] == '(') { if (++lv > mx) mx = lv; } else if (o->s[q] == ')') lv--; } if (mx >= 3) probe_hit("nested_call_depth3"); }
        }
    }
    /* what the store holds at the end of the pass, asked key by key: the last puts of a pass are judged too, not only those a later
       expansion of the plan happens to read back */
    if (!store_uncertain) {
        for (int i = 0; i < NVAR; i++) {
            char *b;
            if (!vars[i].set || vars[i].unc || !vars[i].k[0] || strpbrk(vars[i].k, " \t()'\"\\$%~`")) continue;
            b = sim_malloc(CONFIG_BUFF);
            snprintf(b, CONFIG_BUFF, "%%get(%s)", vars[i].k);
            if (!spifconf_shell_expand((spif_charptr_t)b) || strcmp(b, vars[i].v))
                sim_fail("MISMATCH(expand-value)", "at the end of the pass %%get(%s) gives \"%.60s\", the last value put was \"%.60s\"", vars[i].k, b, vars[i].v);
            sim_free(b);
            probe_hit("store_read_back_at_the_end");
        }
    }
    R.cur_op = NULL;
    spifconf_free_subsystem();
}
static void exec_c10(const plan_t *p)
{
    conf_reset_mirror();
    for (int i = 0; i < MAXRES; i++) { free(pass_a[i]); pass_a[i] = NULL; }
    conf_fill_dir(p);
    one_pass(p, 0);
    one_pass(p, 1);
}

/* ------------------------------------------------------------------ generator */
static char gv[24000];
static size_t gvn;
static void ga(const char *fmt, ...)
{
    va_list ap; int n;
    va_start(ap, fmt);
    n = vsnprintf(gv + gvn, sizeof(gv) - gvn, fmt, ap);
    va_end(ap);
    if (n > 0 && gvn + (size_t)n < sizeof(gv)) gvn += (size_t)n;
}
static const char *gen_key(rng_t *r)
{
    /* keys of different lengths and cases, one a beginning of another */
    static const char *ks[] = { "k0", "k1", "k2", "k3", "k4", "k", "k10", "K1", "kk", "a", "z",
                                "\xc3\xa9t\xc3\xa9", "\xff", "k\xe9", "0", "\x80\x81" };      /* names that begin with, or hold, a byte above 0x7f (a letter in UTF-8 or Latin-1) next to plain ones: where they sort depends on whether a char is signed */
    return ks[rng_below(r, rng_chance(r, 1, 3) ? 16 : 5)];
}
static void gen_piece(rng_t *r, int depth, int inside_args)
{
    int c = (int)rng_below(r, 100);
    static const char *plain[] = { "abc", "x", "some text", "a=b", "path/to/file", "1.5", "end", "-", "_", ":", "caf\xc3\xa9", "\xff\x80z", "80% of it", "(x)" };
    static const char *envs[] = { "V1", "HOME", "EMPTY", "NOSUCH", "LONG_name_9" };
    if (c < 30) ga("%s", plain[rng_below(r, rng_chance(r, 1, 6) ? 14 : 10)]);
    else if (c < 36) ga(" ");
    else if (c < 46) { int f = (int)rng_below(r, 3); const char *e = envs[rng_below(r, 5)]; if (f == 0) ga("$%s", e); else if (f == 1) ga("${%s}", e); else ga("$(%s)", e); }
    else if (c < 52) ga("\\%c", "nrtbfave\\$~%'\"x "[rng_below(r, 17)]);
    else if (c < 57) ga("~");
    else if (c < 62 && !inside_args) { ga("'"); for (int i = rng_range(r, 0, 3); i > 0; i--) { int q = (int)rng_below(r, 8); if (q == 0) ga("~"); else if (q == 1) ga("$V1"); else if (q == 2) ga("\\n"); else if (q == 3) ga("\\'"); else if (q == 4) ga("\\\\"); else if (q == 5) ga("\\%c", "x$~\"nt"[rng_below(r, 7)]); else if (q == 6 && rng_chance(r, 1, 2)) ga("say \"hi"); else ga("%s", plain[rng_below(r, 10)]); } ga("'"); }
    else if (c < 66 && !inside_args) { ga("\""); for (int i = rng_range(r, 0, 3); i > 0; i--) { int q = (int)rng_below(r, 5); if (q == 0) ga("~"); else if (q == 1) ga("$V1"); else if (q == 2) ga("\\t"); else if (q == 3 && rng_chance(r, 1, 3)) ga("it's"); else ga("%s", plain[rng_below(r, 10)]); } ga("\""); }
    else if (c < 67 && !inside_args) ga(rng_chance(r, 1, 2) ? "don't $V1 ~" : "a \"lone quote $V1 ~");         /* a quote that is never closed */
    else if (c < 72) {
        if (rng_chance(r, 1, 5)) { static const char *qv[] = { "''", "\"\"", "'two words'", "\"d q\"", "'$V1'", "'~'", "' '" }; ga("%%put(k%u %s)", rng_below(r, 4), qv[rng_below(r, 7)]); }     /* quoted values, the empty one included */
        else if (rng_chance(r, 1, 10)) { static const char *odd[] = { "%%put()", "%%put(k1)", "%%put(k1 $EMPTY)", "%%put($NOSUCH v)" }; ga(odd[rng_below(r, 4)]); }      /* too few words once expanded */
        else if (rng_chance(r, 1, 12)) { static const char *del[] = { "%%put('a\" b' one)", "%%put('m\" b' one)", "%%put(\"a\\\\\" b)", "%%put(\"m\\\\\" b)", "%%get('a\" b' none)", "%%get('m\" b' none)",
                                                                        "%%put('m\" b' one)%%put(\"m\\\\\" b)", "%%put('a\" b' one)%%put(\"a\\\\\" b)", "%%put('m\" b' one) %%put(\"m\\\\\" b) %%get(k0 d)" }; ga(del[rng_below(r, 9)]); }      /* names with a quote in them, and the spelling that deletes one (two words to the counter, one to the splitter): value not modelled, safety and garbage-independence are */
        else if (rng_chance(r, 1, 8)) {
            /* a quoted word first, a plain one after it, and something behind that (white space in front of the parenthesis) */
            static const char *tail[] = { " ", "\t", "  ", "" };
            int q = rng_chance(r, 1, 2) ? '"' : '\'';
            ga("%%put(%c%s%c v%u%s)", q, gen_key(r), q, rng_below(r, 10), tail[rng_below(r, 4)]);
        }
        else if (rng_chance(r, 1, 12)) { static const int vl[] = { 127, 128, 254, 255, 256, 257, 1000, 2000 }; int n = vl[rng_below(r, 8)]; ga("%%put(%s ", gen_key(r)); for (int q = 0; q < n; q++) ga("%c", 'a' + q % 26); ga(")"); }      /* a value of a few hundred characters */
        else if (rng_chance(r, 1, 25)) {
            /* a value wrapped in a few hundred pairs of parentheses (followed by a read-back): deeper than an 8-bit nesting counter can count */
            static const int pd[] = { 100, 254, 255, 256, 257, 300 }; int n = pd[rng_below(r, 6)]; const char *key = gen_key(r);
            ga("%%put(%s ", key); for (int q = 0; q < n; q++) ga("("); ga("x"); for (int q = 0; q < n; q++) ga(")"); ga(") %%get(%s)", key);
        }
        else ga("%%put(%s %s%u)", gen_key(r), rng_chance(r, 1, 4) ? "$V1" : "v", rng_below(r, 10));
    }
    else if (c < 80) {
        if (rng_chance(r, 1, 10)) { static const char *odd[] = { "%%get()", "%%get($NOSUCH)", "%%get( )", "%%get($EMPTY d)" }; ga(odd[rng_below(r, 4)]); }                    /* nothing to look up */
        else if (rng_chance(r, 1, 8)) { static const char *tail[] = { " ", "\t", "  ", "" }; int q = rng_chance(r, 1, 2) ? '"' : '\''; ga("%%get(%c%s%c d%u%s)", q, rng_chance(r, 1, 2) ? "no such" : gen_key(r), q, rng_below(r, 10), tail[rng_below(r, 4)]); }
        else if (rng_chance(r, 1, 10)) ga("%%get(%s d%u%s)", gen_key(r), rng_below(r, 10), rng_chance(r, 1, 2) ? " " : "\t");
        else if (rng_chance(r, 1, 3)) ga("%%get(%s d%u)", gen_key(r), rng_below(r, 10)); else if (rng_chance(r, 1, 6)) ga("%%get(%s 'a default')", gen_key(r)); else ga("%%get(%s)", gen_key(r));
    }
    else if (c < 83) { static const char *va[] = { "%%version()", "%%appname()", "%%VERSION()", "%%AppName()", "%%GET(k1)", "%%Put(k2 up)" }; ga(va[rng_below(r, rng_chance(r, 1, 5) ? 6 : 2)]); }      /* (names are matched without regard to case) */
    else if (c < 86) {
        static const char *rw[] = { "abc", "x", "a=b" }; const char *w = rw[rng_below(r, 3)];
        if (rng_chance(r, 1, 2)) ga("%%random(%s %s %s)", w, w, w);
        else if (rng_chance(r, 1, 8)) ga("%%random()");
        else if (rng_chance(r, 1, 6)) ga(rng_chance(r, 1, 2) ? "%%random(\"one\" two three)" : "%%random('x' x x )");      /* quoted first word, plain ones behind it */
        else ga("%%random(one two%s)", rng_chance(r, 1, 2) ? " three" : "");             /* differing words: any of them */
    }
    else if (c < 90 && depth < 3) { ga("%%get(k%u ", rng_below(r, 5)); gen_piece(r, depth + 1, 1); ga(")"); }
    else if (c < 92 && depth < 3) { ga("%%put(k%u ", rng_below(r, 4)); if (rng_chance(r, 1, 2)) ga("%%get(k%u z)", rng_below(r, 5)); else ga("w%u", rng_below(r, 9)); ga(")"); }
    else if (c < 94) {
        if (rng_chance(r, 1, 6)) { static const int bl[] = { 1, 100, 4096, 20470, 20478, 20479, 20480, 20481, 30000 }; ga("%%exec(big %d)", bl[rng_below(r, 9)]); }    /* a command with a lot of output */
        else if (rng_chance(r, 1, 8)) { int n = rng_range(r, 120, 140); ga(rng_chance(r, 1, 2) ? "${" : "$"); for (int i = 0; i < n; i++) ga("N"); ga("} x"); }       /* a very long variable name */
        else if (rng_chance(r, 1, 6)) { static const char *quiet[] = { "%%exec(big 0)", "%%exec(echo )", "%%exec(true)", "%%exec(fail)", "`true`" }; ga(quiet[rng_below(r, 5)]); }     /* commands without output */
        else ga("%%exec(echo  out  put%u )", rng_below(r, 9));
    }
    else if (c < 95) ga("`echo bq%u`", rng_below(r, 9));
    else if (c < 96) ga("%%nosuch(x)");
    else if (c < 97) { static const char *open_[] = { "${V1", "$(V1", "${", "$(", "${}", "$()", "`echo never closed" }; ga(open_[rng_below(r, 7)]); }
    else if (c < 98) {
        if (rng_chance(r, 1, 2)) { static const char *sp[] = { "%%version )", "%%appname ) t)", "%%get ) k1)", "%%put ) k2 v)", "%%random ) a b)", "%%exec ) echo x)" }; ga(sp[rng_below(r, 6)]); }      /* the "%name )" spelling */
        else ga(rng_chance(r, 1, 2) ? "%%get(" : "%%");
    }
    else if (c < 99) { static const char *ds[] = { "%%dirscan(/cfg/d)", "%%dirscan(/cfg/d)", "%%dirscan(/cfg/nodir)", "%%dirscan(/cfg/d/one)", "%%dirscan(/cfg/d/dir)" }; ga(ds[rng_below(r, 5)]); }
    else ga("$");
}
static int bigdir;
static void gen_c10(plan_t *p, rng_t *r)
{
    int nops = rng_range(r, 1, 12 * sim_tier_scale());
    op_t *o;
    plan_knob(p, "alloc.fill", rng_range(r, 0, 4));
    plan_knob(p, "alloc.zero", rng_chance(r, 1, 4)); plan_knob(p, "alloc.realloc0", rng_chance(r, 1, 4));      /* the two readings ISO C allows for a request of no bytes */
    plan_knob(p, "alloc.realloc", rng_range(r, 0, 2));
    plan_knob(p, "alloc.reuse", rng_range(r, 0, 2));
    if (rng_chance(r, 1, 10)) { o = plan_op(p, 0, "env", 1, (long)rng_chance(r, 1, 2)); op_str(o, "HOME", 4); op_str2(o, "", 0); }
    if (rng_chance(r, 1, 3)) plan_op(p, 0, "builtin", 1, (long)rng_range(r, 1, 5));
    if (rng_chance(r, 1, 10)) { static const int el[] = { 120, 127, 128, 300, 4096, 20470, 20478, 20479, 20480, 20481, 30000, 65000, 250, 255, 256, 257, 1000, 2000 }; plan_knob(p, rng_chance(r, 1, 2) ? "env.v1len" : "env.homelen", el[rng_below(r, 18)]); }
    if (rng_chance(r, 1, 12)) plan_knob(p, rng_chance(r, 1, 2) ? "fdopen.fail" : "fchmod.fail", rng_range(r, 1, 3));      /* a command's output cannot be read back / its temporary file cannot be given its mode */
    if (rng_chance(r, 1, 12)) { static const int tl[] = { 200, 230, 238, 239, 240, 241, 242, 243, 244, 245, 250, 256, 300 }; plan_knob(p, "tmpdir", rng_range(r, 1, 5)); plan_knob(p, "tmpdir.len", tl[rng_below(r, 13)]); }
    if (rng_chance(r, 1, 10)) {
        /* a directory whose listing is as long as the line buffer, give or take a few bytes */
        static const int nls[] = { 255, 255, 254, 200, 128, 100 };
        plan_knob(p, "dir.total", rng_chance(r, 1, 3) ? CONFIG_BUFF : rng_chance(r, 1, 8) ? 41000 : rng_range(r, CONFIG_BUFF - 6, CONFIG_BUFF + 6));
        plan_knob(p, "dir.namelen", nls[rng_below(r, 6)]);
        bigdir = 1;
    } else bigdir = 0;
    if (rng_chance(r, 1, 10)) plan_knob(p, "exec.readfail", rng_range(r, 1, 2));      /* a command's output cannot be read back: the read fails at once, or half way (value don't-care; safety and garbage-independence stay) */
    if (!bigdir && rng_chance(r, 1, 4)) plan_knob(p, "dir.ghost", 1);      /* names in the directory that stat() cannot follow (gone since readdir(), links to nothing) */
    for (int i = 0; i < nops; i++) {
        int pieces = rng_range(r, 1, 8);
        gvn = 0; gv[0] = 0;
        if (i && rng_chance(r, 1, 10)) plan_op(p, 0, "builtin", 1, (long)rng_range(r, 1, 6));      /* built-ins are registered between expansions too: the table grows (and moves) after it has been used */
        if (rng_chance(r, 1, 25)) {
            /* a command just as long as its buffer allows: "command >tempfile" of CONFIG_BUFF bytes, give or take a few */
            long td = plan_get(p, "tmpdir", 0), outlen = (td == 2 || td == 3 ? plan_get(p, "tmpdir.len", 240) : 4) + 1 + 17;       /* "<dir>/Eterm-exec-XXXXXX" */
            long want = CONFIG_BUFF - 2 - outlen + rng_range(r, -4, 3);
            if (want > 20 && want < CONFIG_BUFF - 10) {
                ga("%%exec(echo ");
                while ((long)gvn - 6 < want - 1) ga("p");
                ga(")");
            }
        } else if (bigdir && rng_chance(r, 1, 2)) {
            if (rng_chance(r, 1, 3)) ga("%s", rng_chance(r, 1, 2) ? "x " : "$V1");
            ga("%%dirscan(/cfg/d)");
            if (rng_chance(r, 1, 3)) ga(" tail");
        } else if (rng_chance(r, 1, 12)) {
            /* push the result to and past the line-buffer limit */
            size_t pad = (size_t)(rng_chance(r, 1, 2) ? rng_range(r, 20440, 20479) : rng_range(r, 20300, 20470));
            memset(gv, 'p', pad); gvn = pad; gv[gvn] = 0;
            if (rng_chance(r, 1, 2)) for (int q = 0; q < 6; q++) ga(rng_chance(r, 1, 2) ? "$V1" : "~");
            else for (int q = 0; q < 8; q++) gen_piece(r, 0, 0);              /* every construct gets its turn at the limit */
        } else for (int q = 0; q < pieces; q++) gen_piece(r, 0, 0);
        if (rng_chance(r, 1, 15)) ga("\\");
        o = plan_op(p, 0, "expand", 0);
        op_str(o, gv, gvn);
        if (rng_chance(r, 1, 8)) {
            /* the environment changes between two expansions; values that look like something to expand must be inserted as they are */
            static const char *names[] = { "V1", "HOME", "EMPTY", "NOSUCH" };
            static const char *vals[] = { "~", "$V1", "it's", "say \"x", "a\\nb", "%get(k0)", "/", "new value", "" };
            const char *v = vals[rng_below(r, 9)];
            o = plan_op(p, 0, "env", 1, (long)rng_chance(r, 1, 5));
            { const char *nm = names[rng_below(r, 4)]; op_str(o, nm, strlen(nm)); }
            op_str2(o, v, strlen(v));
        }
    }
}

const engine_t confsim_c10_engine = { "confsim-expand", "C10", gen_c10, exec_c10 };
