/* envsim: C14 (URL decomposition under every name-service outcome), C15 (debug memory tracker mirrors the live
 * set while the allocator underneath moves and reuses addresses), C17 (version comparison: safe, deterministic,
 * antisymmetric under different stack contents and call histories). */
#define _GNU_SOURCE
#include "sim.h"
#include "simfd.h"
#include "simfs.h"
#include "libast_h.h"
#include <string.h>
#include <stdlib.h>
#include <ctype.h>

static char *blockdup(const unsigned char *s, size_t n)
{
    char *c = sim_malloc(n + 1);
    if (n) memcpy(c, s, n);
    c[n] = 0;
    for (size_t i = 0; i < n; i++) if (!c[i]) c[i] = '?';
    return c;
}
static int sgn(spif_cmp_t c) { return c == SPIF_CMP_LESS ? -1 : c == SPIF_CMP_GREATER ? 1 : c == SPIF_CMP_EQUAL ? 0 : 99; }

/* =====================================================================================================
 * C17
 * ===================================================================================================== */
typedef struct { long num[8]; int nnum; char word[16]; int has_word; long wnum; int has_wnum; int ok; } ver_t;
static const char *prewords[] = { "snap", "pre", "alpha", "beta", "rc" };
static int preword_rank(const char *w) { for (int i = 0; i < 5; i++) if (!strcasecmp(w, prewords[i])) return i + 1; return 0; }

/* parse N(.N)*[word[N]] ; anything else is "not well-formed" */
static void ver_parse(const char *s, ver_t *v)
{
    memset(v, 0, sizeof(*v));
    for (;;) {
        char *e;
        if (!isdigit((unsigned char)*s) || v->nnum >= 8) return;
        v->num[v->nnum++] = strtol(s, &e, 10);                             /* numbers are decimal, zero-padded or not: 08 is eight */
        if (e - s > 9) return;
        s = e;
        if (*s == '.') { s++; continue; }
        break;
    }
    if (isalpha((unsigned char)*s)) {
        size_t n = 0;
        while (isalpha((unsigned char)*s) && n < 15) v->word[n++] = *s++;
        v->word[n] = 0; v->has_word = 1;
        if (isalpha((unsigned char)*s)) return;
        if (isdigit((unsigned char)*s)) {
            char *e;
            v->wnum = strtol(s, &e, 10); v->has_wnum = 1;
            if (e - s > 6) return;
            s = e;
        }
    }
    v->ok = (*s == 0);
}
/* reference order from the statement; returns 99 where the statement is silent */
static int ver_ref(const ver_t *a, const ver_t *b)
{
    int n = a->nnum < b->nnum ? a->nnum : b->nnum, ra, rb;
    for (int i = 0; i < n; i++) if (a->num[i] != b->num[i]) return a->num[i] < b->num[i] ? -1 : 1;
    if (a->nnum != b->nnum) {
        if (!a->has_word && !b->has_word) return a->nnum < b->nnum ? -1 : 1;     /* longer version that merely adds numeric components */
        return 99;
    }
    if (!a->has_word && !b->has_word) return 0;
    if (!a->has_word || !b->has_word) {
        const ver_t *w = a->has_word ? a : b;
        for (const char *q = w->word; *q; q++) if (isupper((unsigned char)*q)) return 99;
        int r = preword_rank(w->word), below = (r >= 1 && r <= 4);               /* snap/pre/alpha/beta rank below the bare version, anything else above */
        int res = below ? -1 : 1;                                                /* (suffixed) relative to bare */
        return a->has_word ? res : -res;
    }
    /* (the statement names the pre-release words in lower case; how other spellings of them rank is not said) */
    for (const char *q = a->word; *q; q++) if (isupper((unsigned char)*q)) return 99;
    for (const char *q = b->word; *q; q++) if (isupper((unsigned char)*q)) return 99;
    ra = preword_rank(a->word); rb = preword_rank(b->word);
    if (ra && rb && ra != rb) return ra < rb ? -1 : 1;
    if (!strcasecmp(a->word, b->word)) {
        if (a->has_wnum && b->has_wnum) return a->wnum < b->wnum ? -1 : a->wnum > b->wnum ? 1 : 0;
        if (!a->has_wnum && !b->has_wnum) return 0;
    }
    return 99;
}

static void exec_c17(const plan_t *p)
{
    static signed char first_answer[PLAN_MAXOPS];
    memset(first_answer, 99, sizeof(first_answer));
    for (int i = 0; i < p->nops; i++) {
        op_t *o = (op_t *)&p->ops[i];
        char *a, *b;
        int r1, r2, r3, r4, r5;
        ver_t va, vb;
        R.cur_op = o; R.cur_op_index = i; R.op_steps = 0;
        if (!strcmp(o->kind, "longrun")) {
            /* one run of a[0] characters of one class (a[1]): longer than a 16-bit index can count.  Written out in a plan it would be a
               hundred kilobytes of text per operation, so the executor makes the strings.  "whatever the length of any run": the call
               comes back, says EQUAL for the string and itself, and mirror-image answers for the string and a twin that differs at the end */
            size_t n = (size_t)o->a[0];
            char ch = (char)o->a[1], *x, *y;
            int e1, e2, e3;
            if (n < 2 || n > 200000) continue;
            x = sim_malloc(n + 8); y = sim_malloc(n + 8);
            memcpy(x, "1.0", 3); memset(x + 3, ch, n); x[n + 3] = 0;
            memcpy(y, x, n + 4); y[n + 2] = ch == '9' ? '8' : ch == 'z' ? 'y' : ch == '.' ? '-' : ch;
            e1 = sgn(spiftool_version_compare((spif_charptr_t)x, (spif_charptr_t)x));
            e2 = sgn(spiftool_version_compare((spif_charptr_t)x, (spif_charptr_t)y));
            e3 = sgn(spiftool_version_compare((spif_charptr_t)y, (spif_charptr_t)x));
            tr_printf("longrun %zu x '%c' -> %d %d %d", n, ch, e1, e2, e3);
            if (e1 != 0) sim_fail("MISMATCH(reflexivity)", "a string with a run of %zu characters compared with itself gives %d", n, e1);
            if (e3 != -e2) sim_fail("MISMATCH(antisymmetry)", "run of %zu characters: compare(a,b)=%d but compare(b,a)=%d", n, e2, e3);
            sim_free(x); sim_free(y);
            probe_hit("run_beyond_65536");
            continue;
        }
        if (strcmp(o->kind, "cmp") || !o->has_s || !o->has_t) continue;
        a = blockdup(o->s, o->slen); b = blockdup(o->t, o->tlen);
        paint_stack((int)o->a[0], 4096);
        r1 = sgn(spiftool_version_compare((spif_charptr_t)a, (spif_charptr_t)b));
        paint_stack((int)o->a[1], 4096);
        r2 = sgn(spiftool_version_compare((spif_charptr_t)a, (spif_charptr_t)b));
        r3 = sgn(spiftool_version_compare((spif_charptr_t)b, (spif_charptr_t)a));
        r4 = sgn(spiftool_version_compare((spif_charptr_t)a, (spif_charptr_t)a));
        r5 = sgn(spiftool_version_compare((spif_charptr_t)a, (spif_charptr_t)b));          /* after a different call history */
        tr_printf("cmp %.40s|%.40s -> %d %d %d %d", a, b, r1, r2, r3, r4);
        if (i < PLAN_MAXOPS) first_answer[i] = (signed char)r1;
        if (r1 == 99 || r3 == 99) sim_fail("MISMATCH(range)", "result is neither LESS, EQUAL nor GREATER");
        if (r1 != r2) sim_fail("MISMATCH(stack-dependence)", "same arguments, different stack contents: %d then %d", r1, r2);
        if (r1 != r5) sim_fail("MISMATCH(history-dependence)", "same arguments, different preceding calls: %d then %d", r1, r5);
        if (r3 != -r1) sim_fail("MISMATCH(antisymmetry)", "compare(a,b)=%d but compare(b,a)=%d", r1, r3);
        if (r4 != 0) sim_fail("MISMATCH(reflexivity)", "compare(a,a)=%d", r4);
        if (!strcmp(a, b) && r1 != 0) sim_fail("MISMATCH(reflexivity)", "equal strings compare %d", r1);
        ver_parse(a, &va); ver_parse(b, &vb);
        if (va.ok && vb.ok) {
            int want = ver_ref(&va, &vb);
            probe_hit("wellformed_pair");
            { const char *z; int padded = 0; for (z = a; *z; z++) if (z[0] == '0' && isdigit((unsigned char)z[1]) && (z == a || !isdigit((unsigned char)z[-1]))) padded = 1;
              for (z = b; *z; z++) if (z[0] == '0' && isdigit((unsigned char)z[1]) && (z == b || !isdigit((unsigned char)z[-1]))) padded = 1;
              if (padded) probe_hit("zero_padded_component"); }
            if (va.has_word && vb.has_word && preword_rank(va.word) && preword_rank(vb.word)) probe_hit("prerelease_word_pair");
            if (va.has_word != vb.has_word && va.nnum == vb.nnum) probe_hit("suffix_vs_bare");
            if (want != 99 && want != r1) sim_fail("MISMATCH(order)", "compare(\"%.40s\",\"%.40s\") returned %d, the stated ordering rules give %d", a, b, r1, want);
        }
        if (o->slen > 127 || o->tlen > 127) probe_hit("run_longer_than_127");
        if (plan_get(p, "sweep", 0)) probe_hit("exhaustive_short_pair");
        sim_free(a); sim_free(b);
    }
    /* "the same answer every time for the same arguments regardless of prior calls": every comparison of the run once more, in
       reverse order -- each now has the whole run, and its own successors, for a history */
    for (int i = p->nops - 1; i >= 0; i--) {
        op_t *o = (op_t *)&p->ops[i];
        char *a, *b;
        int r;
        if (strcmp(o->kind, "cmp") || !o->has_s || !o->has_t || i >= PLAN_MAXOPS || first_answer[i] == 99) continue;
        R.cur_op = o; R.cur_op_index = i; R.op_steps = 0;
        a = blockdup(o->s, o->slen); b = blockdup(o->t, o->tlen);
        r = sgn(spiftool_version_compare((spif_charptr_t)a, (spif_charptr_t)b));
        if (r != first_answer[i]) sim_fail("MISMATCH(history-dependence)", "compare(\"%.40s\",\"%.40s\") said %d the first time and %d when asked again after the other comparisons of the run", a, b, first_answer[i], r);
        sim_free(a); sim_free(b);
        probe_hit("asked_again_at_the_end");
    }
    R.cur_op = NULL;
}

static size_t gen_version(rng_t *r, char *out, size_t max)
{
    static const char *words[] = { "snap", "pre", "alpha", "beta", "rc", "a", "b", "p", "final", "Alpha", "PRE", "xyz",
                                   "prefix", "snapshot", "alphabet", "betas", "rcx", "sna", "alph", "r", "bet", "prerelease" };    /* words that merely begin like, or are cut short of, a pre-release word */
    size_t n = 0;
    int comps = rng_range(r, 1, 4);
    int pad = rng_chance(r, 1, 5);                     /* zero-padded components (dates, 1.010 vs 1.9) */
    for (int i = 0; i < comps; i++) {
        static const unsigned bigs[] = { 127, 128, 129, 255, 256, 300, 999, 1000, 32767, 32768, 65535, 65536, 99999, 20040131 };
        unsigned v = rng_chance(r, 1, 3) ? rng_below(r, 3) : rng_chance(r, 1, 4) ? 7 + rng_below(r, 5) : rng_chance(r, 1, 6) ? bigs[rng_below(r, 14)] : rng_below(r, 100);
        n += (size_t)snprintf(out + n, max - n, pad && rng_chance(r, 1, 2) ? (rng_chance(r, 1, 2) ? "%s%02u" : "%s%03u") : "%s%u", i ? "." : "", v);
    }
    if (rng_chance(r, 1, 2)) {
        n += (size_t)snprintf(out + n, max - n, "%s", words[rng_below(r, 22)]);
        if (rng_chance(r, 2, 3)) n += (size_t)snprintf(out + n, max - n, pad && rng_chance(r, 1, 3) ? "%02u" : "%u", rng_below(r, 12));
    }
    return n;
}
static size_t gen_wild(rng_t *r, char *out, size_t max)
{
    size_t n = 0;
    int runs = rng_range(r, 0, 5);
    for (int i = 0; i < runs && n + 1300 < max; i++) {
        static const int lens[] = { 1, 1, 2, 3, 7, 126, 127, 128, 129, 200, 1000 };
        int cls = (int)rng_below(r, 3), len = lens[rng_below(r, rng_chance(r, 1, 4) ? 11 : 5)];
        for (int j = 0; j < len; j++) out[n++] = cls == 0 ? "abZpresnalhbtc"[rng_below(r, 14)] : cls == 1 ? (char)('0' + rng_below(r, 10)) : ".-_+ ~"[rng_below(r, 6)];
    }
    out[n] = 0;
    return n;
}
/* bounded exhaustive part: every pair of strings of up to 3 characters over a small alphabet that has letters of the
   pre-release words, digits and punctuation -- 585 strings, 342225 pairs, 20 pairs per plan for the first 17112 seeds */
#define SW_ALPHA "apre10.-"
#define SW_NSTR 585
static size_t sweep_str(int idx, char *out)
{
    size_t n = 0;
    if (idx == 0) { out[0] = 0; return 0; }
    idx--;
    if (idx < 8) n = 1; else if (idx < 8 + 64) { n = 2; idx -= 8; } else { n = 3; idx -= 72; }
    for (size_t i = 0; i < n; i++) { out[n - 1 - i] = SW_ALPHA[idx % 8]; idx /= 8; }
    out[n] = 0;
    return n;
}
static int c17_sweep_plans(void) { return (SW_NSTR * SW_NSTR + 19) / 20; }

static void gen_c17(plan_t *p, rng_t *r)
{
    static char a[8000], b[8000];
    static const int paints[] = { 0x00, 0xFF, 'a', 'Z', 0xA5, '1', '.' };
    int nops = rng_range(r, 1, 20 * sim_tier_scale());
    plan_knob(p, "alloc.fill", rng_range(r, 0, 4));
    plan_knob(p, "alloc.zero", rng_chance(r, 1, 4)); plan_knob(p, "alloc.realloc0", rng_chance(r, 1, 4));      /* the two readings ISO C allows for a request of no bytes */
    if ((int)(p->seed % 1000000) < c17_sweep_plans()) {
        int first = (int)(p->seed % 1000000) * 20;
        plan_knob(p, "sweep", 1);
        for (int q = first; q < first + 20 && q < SW_NSTR * SW_NSTR; q++) {
            size_t na = sweep_str(q / SW_NSTR, a), nb = sweep_str(q % SW_NSTR, b);
            op_t *o = plan_op(p, 0, "cmp", 2, 0L, 255L);
            op_str(o, a, na); op_str2(o, b, nb);
        }
        return;
    }
    if (rng_chance(r, 1, 300)) {
        static const long big[] = { 32767, 32768, 65535, 65536, 65537, 70000, 131072 };
        plan_op(p, 0, "longrun", 2, big[rng_below(r, 7)], (long)"az9."[rng_below(r, 4)]);
    }
    for (int i = 0; i < nops; i++) {
        size_t na, nb;
        int mode = (int)rng_below(r, 12);
        op_t *o;
        if (i > 0 && rng_chance(r, 1, 4)) {
            /* related to the call before: one of its strings again with its word cut down, grown, or replaced by a real pre-release
               word on either side -- whatever the previous call left behind now meets something that looks like it */
            static char pa[8000], pb[8000];
            size_t pn, w0, w1;
            memcpy(pa, rng_chance(r, 1, 2) ? a : b, sizeof(pa)); pa[sizeof(pa) - 1] = 0; pn = strlen(pa);
            for (w0 = 0; w0 < pn && !isalpha((unsigned char)pa[w0]); w0++);
            for (w1 = w0; w1 < pn && isalpha((unsigned char)pa[w1]); w1++);
            memcpy(pb, pa, pn + 1);
            if (w1 > w0 && pn < 3000) {
                static const char *pre[] = { "snap", "pre", "alpha", "beta", "rc" };
                int k = (int)rng_below(r, 4);
                if (k == 0 && w1 > w0 + 1) { memmove(pa + w0 + (w1 - w0) / 2, pa + w1, pn - w1 + 1); }                   /* first half of the word against the whole */
                else if (k == 1) { memmove(pa + w1 + 3, pa + w1, pn - w1 + 1); memcpy(pa + w1, "bet", 3); }                /* the word grown by three letters against the word */
                else {
                    /* two different pre-release words in its place */
                    int x = (int)rng_below(r, 5), y = (x + 1 + (int)rng_below(r, 4)) % 5;
                    size_t xl = strlen(pre[x]), yl = strlen(pre[y]);
                    memmove(pa + w0 + xl, pa + w1, pn - w1 + 1); memcpy(pa + w0, pre[x], xl);
                    memmove(pb + w0 + yl, pb + w1, pn - w1 + 1); memcpy(pb + w0, pre[y], yl);
                }
            } else if (pn + 8 < sizeof(pb)) snprintf(pb + pn, sizeof(pb) - pn, "%s", rng_chance(r, 1, 2) ? "beta1" : ".1");
            if (rng_chance(r, 1, 2)) { na = strlen(pa); memcpy(a, pa, na + 1); nb = strlen(pb); memcpy(b, pb, nb + 1); }
            else { na = strlen(pb); memcpy(a, pb, na + 1); nb = strlen(pa); memcpy(b, pa, nb + 1); }
        } else
        if (mode == 11) {
            /* numeric components at the edges of 32 and 64 bits, and pairs that lie exactly 2^31 or 2^32 apart: the places where a difference of
               two converted numbers stops saying which one is larger (the statement's antisymmetry is for all strings, these included) */
            static const char *edge[] = { "0", "1", "2147483646", "2147483647", "2147483648", "2147483649", "4294967295", "4294967296", "4294967297", "6442450944",
                                          "9223372036854775807", "9223372036854775808", "18446744073709551616", "3000000000", "1000000000", "02147483648" };
            static const char *pfx[] = { "", "1.", "2.0.", "v", "1.0-" };
            const char *px = pfx[rng_below(r, 5)], *sx = rng_chance(r, 1, 3) ? ".1" : rng_chance(r, 1, 2) ? "pre1" : "";
            na = (size_t)snprintf(a, sizeof(a), "%s%s%s", px, edge[rng_below(r, 16)], sx);
            nb = (size_t)snprintf(b, sizeof(b), "%s%s%s", px, edge[rng_below(r, 16)], rng_chance(r, 1, 4) ? "" : sx);
        } else
        if (mode == 10) {
            /* one string is the other plus punctuation, a word and a number, each optional */
            static const char *ws[] = { "pre", "snap", "alpha", "beta", "rc", "prefix", "x", "final", "" };
            na = rng_chance(r, 1, 2) ? gen_version(r, a, sizeof(a)) : gen_wild(r, a, sizeof(a));
            memcpy(b, a, na + 1); nb = na;
            if (rng_chance(r, 1, 2)) nb += (size_t)snprintf(b + nb, sizeof(b) - nb, "%c", ".-_+ ~"[rng_below(r, 6)]);
            nb += (size_t)snprintf(b + nb, sizeof(b) - nb, "%s", ws[rng_below(r, 9)]);
            if (rng_chance(r, 1, 2)) nb += (size_t)snprintf(b + nb, sizeof(b) - nb, "%u", rng_below(r, 20));
            if (rng_chance(r, 1, 2)) { static char t[8000]; memcpy(t, a, na + 1); memcpy(a, b, nb + 1); memcpy(b, t, na + 1); { size_t x = na; na = nb; nb = x; } }
        } else if (mode < 5) { na = gen_version(r, a, sizeof(a)); nb = gen_version(r, b, sizeof(b)); }
        else if (mode < 6) { na = gen_version(r, a, sizeof(a)); memcpy(b, a, na + 1); nb = na; if (rng_chance(r, 1, 2)) nb += (size_t)snprintf(b + nb, sizeof(b) - nb, rng_chance(r, 1, 2) ? ".%u" : "pre%u", rng_below(r, 9)); }
        else if (mode < 9) { na = gen_wild(r, a, sizeof(a)); nb = gen_wild(r, b, sizeof(b)); }
        else { na = gen_wild(r, a, sizeof(a)); memcpy(b, a, na + 1); nb = na; if (nb && rng_chance(r, 1, 2)) b[rng_below(r, (uint32_t)nb)] ^= 1; }
        o = plan_op(p, 0, "cmp", 2, (long)paints[rng_below(r, 7)], (long)paints[rng_below(r, 7)]);
        op_str(o, a, na); op_str2(o, b, nb);
    }
}

/* =====================================================================================================
 * C14
 * ===================================================================================================== */
typedef struct { char proto[1300], user[1300], passwd[1300], host[1300], port[1300], path[1300], query[1300]; int has[7]; int overflow; } urlc_t;      /* (components of a kilobyte too: "any byte string at all") */
enum { U_PROTO, U_USER, U_PASSWD, U_HOST, U_PORT, U_PATH, U_QUERY };

/* reference splitter (DESIGN B.8), written from the accepted shape, not from url.c */
static void ref_split(const char *s, urlc_t *u)
{
    const char *p = s, *colon = strchr(s, ':'), *rest, *pathp, *q, *authend, *at, *c;
    size_t n;
    memset(u, 0, sizeof(*u));
    if (colon) {
        const char *x = s;
        while (x < colon && isalnum((unsigned char)*x)) x++;
        if (x == colon) { n = (size_t)(colon - s); if (n < 1299) { memcpy(u->proto, s, n); u->has[U_PROTO] = 1; } else u->overflow = 1; p = colon + 1; }
    }
    if (p[0] == '/' && p[1] == '/') p += 2;
    rest = p;
    pathp = strchr(rest, '/');
    if (pathp) {
        q = strchr(pathp, '?');
        n = q ? (size_t)(q - pathp) : strlen(pathp);
        if (n < 1299) { memcpy(u->path, pathp, n); u->has[U_PATH] = 1; } else u->overflow = 1;
        if (q) { if (strlen(q + 1) >= sizeof(u->query)) u->overflow = 1; snprintf(u->query, sizeof(u->query), "%s", q + 1); u->has[U_QUERY] = 1; }
        authend = pathp;
    } else if ((q = strchr(rest, '?'))) {
        snprintf(u->query, sizeof(u->query), "%s", q + 1); u->has[U_QUERY] = 1;
        authend = q;
    } else authend = rest + strlen(rest);
    at = memchr(rest, '@', (size_t)(authend - rest));
    if (at) {
        c = memchr(rest, ':', (size_t)(at - rest));
        if (c) { n = (size_t)(c - rest); if (n < 1299) { memcpy(u->user, rest, n); u->has[U_USER] = 1; } else u->overflow = 1; n = (size_t)(at - c - 1); if (n < 1299) { memcpy(u->passwd, c + 1, n); u->has[U_PASSWD] = 1; } else u->overflow = 1; }
        else { n = (size_t)(at - rest); if (n < 1299) { memcpy(u->user, rest, n); u->has[U_USER] = 1; } else u->overflow = 1; }
        rest = at + 1;
    }
    c = memchr(rest, ':', (size_t)(authend - rest));
    if (c) {
        n = (size_t)(c - rest); if (n < 1299) { memcpy(u->host, rest, n); u->has[U_HOST] = 1; } else u->overflow = 1;
        n = (size_t)(authend - c - 1); if (n < 1299) { memcpy(u->port, c + 1, n); u->has[U_PORT] = 1; } else u->overflow = 1;
    } else if (rest != authend) { n = (size_t)(authend - rest); if (n < 1299) { memcpy(u->host, rest, n); u->has[U_HOST] = 1; } else u->overflow = 1; }
}
static void get_components(spif_url_t url, urlc_t *u, const char *when)
{
    spif_str_t c[7];
    char *dst[7] = { u->proto, u->user, u->passwd, u->host, u->port, u->path, u->query };
    size_t cap[7] = { 1300, 1300, 1300, 1300, 1300, 1300, 1300 };
    memset(u, 0, sizeof(*u));
    c[0] = spif_url_get_proto(url); c[1] = spif_url_get_user(url); c[2] = spif_url_get_passwd(url); c[3] = spif_url_get_host(url);
    c[4] = spif_url_get_port(url); c[5] = spif_url_get_path(url); c[6] = spif_url_get_query(url);
    for (int i = 0; i < 7; i++) {
        if (!c[i]) continue;
        if (!sa_readable(c[i], sizeof(*c[i])) || c[i]->len < 0 || (c[i]->len && !sa_readable(c[i]->s, (size_t)c[i]->len + 1)))
            sim_fail("INVARIANT(dangling-component)", "%s: component %d is not a live string", when, i);
        u->has[i] = 1;
        snprintf(dst[i], cap[i], "%.*s", (int)c[i]->len, c[i]->len ? (const char *)c[i]->s : "");
    }
}
static int comp_eq(const urlc_t *a, const urlc_t *b, int skip_port, char *why, size_t n)
{
    static const char *nm[7] = { "proto", "user", "passwd", "host", "port", "path", "query" };
    const char *av[7] = { a->proto, a->user, a->passwd, a->host, a->port, a->path, a->query };
    const char *bv[7] = { b->proto, b->user, b->passwd, b->host, b->port, b->path, b->query };
    for (int i = 0; i < 7; i++) {
        if (i == U_PORT && skip_port) continue;
        if (a->has[i] != b->has[i] || (a->has[i] && strcmp(av[i], bv[i]))) {
            snprintf(why, n, "%s: got %s%.40s%s, expected %s%.40s%s", nm[i], a->has[i] ? "\"" : "", a->has[i] ? av[i] : "absent", a->has[i] ? "\"" : "",
                     b->has[i] ? "\"" : "", b->has[i] ? bv[i] : "absent", b->has[i] ? "\"" : "");
            return 0;
        }
    }
    return 1;
}

/* is the text inside the accepted shape [proto:][//][user[:passwd]@]host[:port][/path][?query] (or a bare path),
 * and unambiguous under it?  Decided from the text itself so that shrinking a plan cannot mislabel it. */
static int url_wellformed(const char *s)
{
    const char *p = s, *colon = strchr(s, ':'), *auth, *end, *at, *hp, *c;
    int hasproto = 0;
    for (const char *q = s; *q; q++) if ((unsigned char)*q <= ' ' && *q != ' ') return 0;
    if (colon) { const char *x = s; while (x < colon && isalnum((unsigned char)*x)) x++; if (x == colon && colon > s) { hasproto = 1; p = colon + 1; } }
    if (!hasproto && s[0] == '/' && s[1] != '/') {                      /* bare path */
        const char *q = strchr(s, '?');
        (void)q;
        return 1;
    }
    if (p[0] == '/' && p[1] == '/') p += 2;
    auth = p;
    end = auth + strcspn(auth, "/?");
    if (end == auth) return 0;                                          /* host is mandatory */
    at = memchr(auth, '@', (size_t)(end - auth));
    hp = auth;
    if (at) {
        const char *uc = memchr(auth, ':', (size_t)(at - auth));
        if (at == auth || uc == auth) return 0;                         /* empty user */
        if (uc && uc + 1 == at) return 0;                               /* empty password */
        if (memchr(at + 1, '@', (size_t)(end - at - 1))) return 0;
        hp = at + 1;
    }
    c = memchr(hp, ':', (size_t)(end - hp));
    if (c) {
        if (c == hp || c + 1 == end) return 0;
        for (const char *d = c + 1; d < end; d++) if (!isdigit((unsigned char)*d)) return 0;
    } else if (hp == end) return 0;
    if (!hasproto) {                                                    /* an all-alphanumeric first word followed by ':' anywhere would be taken as a protocol */
        const char *fc = strchr(s, ':'), *x = s;
        if (fc) { while (x < fc && isalnum((unsigned char)*x)) x++; if (x == fc) return 0; }
    }
    if (*end == '?' && strchr(end, '/')) return 0;                      /* no path: a '/' inside the query would be taken as the path */
    return 1;
}

/* port rule: "filled from the service database only when a protocol but no port was given".  The statement does not say in which
   order the databases are asked, what happens when the service's own protocol is unknown to the protocol database, or whether the
   word is matched in exact case -- so the rule is a SET of acceptable answers: port_ok() says whether what the library reports
   (a port text, or NULL for none) is one of them. */
static int port_ok(const char *w, long ns, const char *got)
{
    int is_proto = (!strcmp(w, "tcp") && (ns & 1)) || (!strcmp(w, "udp") && (ns & 2)) || (!strcmp(w, "ip") && (ns & 32));
    const char *ports[3] = { NULL, NULL, NULL }; int np = 0, absent_ok = 0, any_ok = 0;
    char lw[80]; size_t k;
    int tcp = (ns & 1) != 0, udp = (ns & 2) != 0;
    for (k = 0; w[k] && k < sizeof(lw) - 1; k++) lw[k] = (char)tolower((unsigned char)w[k]);
    lw[k] = 0;
    if (strcmp(lw, w)) {
        /* a spelling with capitals of a word the databases know in lower case: whether that is the same word is theirs to say */
        static const char *known[] = { "tcp", "udp", "ip", "http", "ftp", "dns", "odd", "amanda", "top", "dual" };
        for (int q = 0; q < 10; q++) if (!strcmp(lw, known[q])) any_ok = 1;
    }
    if (is_proto) { probe_hit("proto_is_protocol_name"); absent_ok = 1; }
    else if (!strcmp(w, "http") && (ns & 4)) { ports[np++] = "80"; if (!tcp) absent_ok = 1; probe_hit(tcp ? "service_found_tcp" : "service_found_but_protocol_missing"); }
    else if (!strcmp(w, "ftp") && (ns & 16)) { ports[np++] = "21"; if (!tcp) absent_ok = 1; probe_hit(tcp ? "service_found_tcp" : "service_found_but_protocol_missing"); }
    else if (!strcmp(w, "dns") && (ns & 8)) { ports[np++] = "53"; if (!udp) absent_ok = 1; probe_hit(udp ? "service_found_udp_only" : "service_found_but_protocol_missing"); }
    else if (!strcmp(w, "odd") && (ns & 64)) { ports[np++] = "99"; absent_ok = 1; probe_hit("service_proto_missing"); }       /* its protocol (sctp) is in no protocol database */
    else if (!strcmp(w, "amanda") && (ns & 128)) { ports[np++] = "10080"; if (!udp) absent_ok = 1; probe_hit("service_with_five_digit_port"); }
    else if (!strcmp(w, "top") && (ns & 128)) { ports[np++] = "65535"; if (!tcp) absent_ok = 1; probe_hit("service_with_five_digit_port"); }
    else if (!strcmp(w, "dual") && (ns & 128)) { ports[np++] = "1000"; ports[np++] = "2000"; if (!tcp || !udp) absent_ok = 1; probe_hit("service_listed_under_two_protocols"); }   /* udp/2000 and tcp/1000: both are "from the service database" */
    else absent_ok = 1;                 /* a word no database knows */
    if (any_ok) return 1;
    if (!got) return absent_ok;
    for (int q = 0; q < np; q++) if (!strcmp(got, ports[q])) return 1;
    return 0;
}
static void canonical_text(const urlc_t *c, char *exp, size_t cap)
{
    size_t n = 0;
    exp[0] = 0;
    if (c->has[U_PROTO]) n += (size_t)snprintf(exp + n, cap - n, "%s:", c->proto);
    if (c->has[U_HOST]) n += (size_t)snprintf(exp + n, cap - n, "//");
    if (c->has[U_USER]) { n += (size_t)snprintf(exp + n, cap - n, "%s", c->user); if (c->has[U_PASSWD]) n += (size_t)snprintf(exp + n, cap - n, ":%s", c->passwd); n += (size_t)snprintf(exp + n, cap - n, "@"); }
    if (c->has[U_HOST]) { n += (size_t)snprintf(exp + n, cap - n, "%s", c->host); if (c->has[U_PORT]) n += (size_t)snprintf(exp + n, cap - n, ":%s", c->port); }
    if (c->has[U_PATH]) n += (size_t)snprintf(exp + n, cap - n, "%s", c->path);
    if (c->has[U_QUERY]) n += (size_t)snprintf(exp + n, cap - n, "?%s", c->query);
}
static int url_wellformed(const char *s);
/* "asm": a URL assembled from components through the setters, then unparsed and parsed again */
static void exec_asm(const op_t *o, long ns)
{
    urlc_t want, got, got2, chk;
    char *dst[7] = { want.proto, want.user, want.passwd, want.host, want.port, want.path, want.query };
    size_t cap[7] = { 1300, 1300, 1300, 1300, 1300, 1300, 1300 };
    char exp[9000], why[200], portbuf[16], *canon;
    const unsigned char *q = o->s, *end = o->s + o->slen;
    spif_url_t u, u2;
    memset(&want, 0, sizeof(want));
    for (int i = 0; i < 7 && q <= end; i++) {
        const unsigned char *e = memchr(q, 1, (size_t)(end - q));
        size_t n = e ? (size_t)(e - q) : (size_t)(end - q);
        if (n >= cap[i] || memchr(q, 0, n)) return;
        memcpy(dst[i], q, n); dst[i][n] = 0;
        want.has[i] = (int)((o->a[0] >> i) & 1);
        if (!want.has[i]) dst[i][0] = 0;
        q = e ? e + 1 : end + 1;
    }
    /* inside the accepted shape and unambiguous?  Decided from the canonical text of the tuple itself */
    canonical_text(&want, exp, sizeof(exp));
    if (!url_wellformed(exp)) { probe_hit("asm_tuple_outside_shape"); return; }
    ref_split(exp, &chk);
    if (!comp_eq(&chk, &want, 0, why, sizeof(why))) { probe_hit("asm_tuple_ambiguous"); return; }
    if (want.has[U_PATH] && want.path[0] != '/') return;
    u = spif_url_new();
    if (!u) sim_fail("MISMATCH(constructor)", "spif_url_new returned NULL");
    if (want.has[U_PROTO]) spif_url_set_proto(u, spif_str_new_from_ptr((spif_charptr_t)want.proto));
    if (want.has[U_USER]) spif_url_set_user(u, spif_str_new_from_ptr((spif_charptr_t)want.user));
    if (want.has[U_PASSWD]) spif_url_set_passwd(u, spif_str_new_from_ptr((spif_charptr_t)want.passwd));
    if (want.has[U_HOST]) spif_url_set_host(u, spif_str_new_from_ptr((spif_charptr_t)want.host));
    if (want.has[U_PORT]) spif_url_set_port(u, spif_str_new_from_ptr((spif_charptr_t)want.port));
    if (want.has[U_PATH]) spif_url_set_path(u, spif_str_new_from_ptr((spif_charptr_t)want.path));
    if (want.has[U_QUERY]) spif_url_set_query(u, spif_str_new_from_ptr((spif_charptr_t)want.query));
    get_components(u, &got, "assembled");
    if (!comp_eq(&got, &want, 0, why, sizeof(why))) sim_fail("MISMATCH(components)", "assembled through the setters: %s", why);
    if (!spif_url_unparse(u)) sim_fail("MISMATCH(unparse)", "unparse of an assembled URL returned FALSE");
    canon = blockdup((const unsigned char *)SPIF_STR_STR(SPIF_STR(u)), (size_t)spif_str_get_len(SPIF_STR(u)));
    if (strcmp(canon, exp)) sim_fail("MISMATCH(unparse)", "assembled URL unparsed to \"%.80s\", the canonical text is \"%.80s\"", canon, exp);
    get_components(u, &got2, "after unparse");
    if (!comp_eq(&got2, &want, 0, why, sizeof(why))) sim_fail("MISMATCH(unparse-changed-components)", "%s", why);
    u2 = spif_url_new_from_ptr((spif_charptr_t)canon);
    if (!u2) sim_fail("MISMATCH(constructor)", "spif_url_new_from_ptr returned NULL");
    get_components(u2, &got2, "reparse");
    if (want.has[U_PROTO] && !want.has[U_PORT]) {
        if (!port_ok(want.proto, ns, got2.has[U_PORT] ? got2.port : NULL)) sim_fail("MISMATCH(roundtrip)", "assembled, unparsed to \"%.60s\" and parsed again: port %s is not what the service database gives for \"%.20s\"", canon, got2.has[U_PORT] ? got2.port : "(none)", want.proto);
        want.has[U_PORT] = got2.has[U_PORT]; snprintf(want.port, sizeof(want.port), "%s", got2.has[U_PORT] ? got2.port : "");
    }
    (void)portbuf;
    if (!comp_eq(&got2, &want, 0, why, sizeof(why))) sim_fail("MISMATCH(roundtrip)", "assembled, unparsed to \"%.60s\" and parsed again: %s", canon, why);
    probe_hit("assembled_url_roundtrip");
    tr_printf("asm %.60s", canon);
    spif_url_del(u2);
    spif_url_del(u);
    sim_free(canon);
}

static void c14_set_ns(long ns)
{
    if (ns & 1) simns_add_proto("tcp", 6);
    if (ns & 2) simns_add_proto("udp", 17);
    if (ns & 4) simns_add_serv("http", "tcp", 80);
    if (ns & 8) simns_add_serv("dns", "udp", 53);
    if (ns & 16) simns_add_serv("ftp", "tcp", 21);
    if (ns & 32) simns_add_proto("ip", 0);
    if (ns & 64) simns_add_serv("odd", "sctp", 99);          /* service whose protocol is not in the table */
    if (ns & 128) { simns_add_serv("amanda", "udp", 10080); simns_add_serv("top", "tcp", 65535); }      /* the widest port numbers there are */
    if (ns & 128) { simns_add_serv("dual", "udp", 2000); simns_add_serv("dual", "tcp", 1000); }           /* one name under two protocols with different ports, the less preferred one listed first */
}
static void exec_c14(const plan_t *p)
{
    /* name-service table for this run (an "ns" operation replaces it in mid-run: the databases behind getprotobyname() and
       getservbyname() are files that change, and a parse must ask them, not its memory of an earlier answer) */
    long ns = plan_get(p, "ns", 0);
    c14_set_ns(ns);
    for (int i = 0; i < p->nops; i++) {
        op_t *o = (op_t *)&p->ops[i];
        char *txt, why[200];
        spif_url_t u, u2;
        urlc_t got, want, got2, got3;
        int wellformed, expect_port = 0;
        char portbuf[16] = "";
        R.cur_op = o; R.cur_op_index = i; R.op_steps = 0;
        if (!strcmp(o->kind, "ns")) { ns = o->a[0] & 255; simns_reset(); c14_set_ns(ns); probe_hit("name_service_changed"); continue; }
        if (!strcmp(o->kind, "asm") && o->has_s) { exec_asm(o, ns); continue; }
        if (strcmp(o->kind, "url") || !o->has_s) continue;
        txt = blockdup(o->s, o->slen);
        wellformed = url_wellformed(txt);
        { urlc_t probe; ref_split(txt, &probe); if (probe.overflow) { wellformed = 0; probe_hit("component_beyond_model_size"); } }     /* longer than the model's fields: safety only */
        paint_stack((int)o->a[0], 4096);
        if (o->na > 3 && o->a[3] == 1) {
            /* from a string object, which is gone before anything is read back */
            spif_str_t so = spif_str_new_from_ptr((spif_charptr_t)txt);
            u = spif_url_new_from_str(so);
            spif_str_del(so);
            probe_hit("constructed_from_str_object");
        } else u = spif_url_new_from_ptr((spif_charptr_t)txt);
        if (!u) sim_fail("MISMATCH(constructor)", "the URL constructor returned NULL");
        get_components(u, &got, "parse");
        ref_split(txt, &want);
        if (want.has[U_PROTO] && !want.has[U_PORT]) {
            if (wellformed && !port_ok(want.proto, ns, got.has[U_PORT] ? got.port : NULL)) sim_fail("MISMATCH(components)", "parsing \"%.80s\": port %s is not what the service database gives for \"%.20s\"", txt, got.has[U_PORT] ? got.port : "(none)", want.proto);
            want.has[U_PORT] = got.has[U_PORT]; snprintf(want.port, sizeof(want.port), "%s", got.has[U_PORT] ? got.port : "");
        }
        (void)expect_port; (void)portbuf;
        if (!comp_eq(&got, &want, 0, why, sizeof(why))) {
            if (wellformed) sim_fail("MISMATCH(components)", "parsing \"%.80s\": %s", txt, why);
            /* arbitrary byte strings: only safety and determinism are demanded */
        }
        if (wellformed) probe_hit("wellformed_url");
        if (want.has[U_PASSWD] && strchr(want.passwd, ':')) probe_hit("colon_in_password");
        if (want.has[U_QUERY] && !want.has[U_PATH]) probe_hit("query_without_path");
        /* stack-content independence: parse again under a different paint */
        paint_stack((int)o->a[2], 4096);
        u2 = spif_url_new_from_ptr((spif_charptr_t)txt);
        get_components(u2, &got2, "parse#2");
        if (!comp_eq(&got2, &got, 0, why, sizeof(why))) sim_fail("MISMATCH(stack-dependence)", "same text parsed twice under different stack contents: %s", why);
        spif_url_del(u2);
        /* unparse, and parse the canonical text again */
        if (wellformed) {
            char *canon;
            if (!spif_url_unparse(u)) sim_fail("MISMATCH(unparse)", "unparse returned FALSE");
            canon = blockdup((const unsigned char *)SPIF_STR_STR(SPIF_STR(u)), (size_t)spif_str_get_len(SPIF_STR(u)));
            {
                char exp[9000]; size_t n = 0;
                if (got.has[U_PROTO]) n += (size_t)snprintf(exp + n, sizeof(exp) - n, "%s:", got.proto);
                if (got.has[U_HOST]) n += (size_t)snprintf(exp + n, sizeof(exp) - n, "//");
                if (got.has[U_USER]) { n += (size_t)snprintf(exp + n, sizeof(exp) - n, "%s", got.user); if (got.has[U_PASSWD]) n += (size_t)snprintf(exp + n, sizeof(exp) - n, ":%s", got.passwd); n += (size_t)snprintf(exp + n, sizeof(exp) - n, "@"); }
                if (got.has[U_HOST]) { n += (size_t)snprintf(exp + n, sizeof(exp) - n, "%s", got.host); if (got.has[U_PORT]) n += (size_t)snprintf(exp + n, sizeof(exp) - n, ":%s", got.port); }
                if (got.has[U_PATH]) n += (size_t)snprintf(exp + n, sizeof(exp) - n, "%s", got.path);
                if (got.has[U_QUERY]) n += (size_t)snprintf(exp + n, sizeof(exp) - n, "?%s", got.query);
                exp[n] = 0;
                if (got.has[U_HOST] || !got.has[U_PORT]) if (strcmp(exp, canon)) sim_fail("MISMATCH(unparse)", "unparse produced \"%.80s\", the canonical text is \"%.80s\"", canon, exp);
            }
            get_components(u, &got3, "after unparse");
            if (!comp_eq(&got3, &got, 0, why, sizeof(why))) sim_fail("MISMATCH(unparse-changed-components)", "%s", why);
            u2 = spif_url_new_from_ptr((spif_charptr_t)canon);
            get_components(u2, &got2, "reparse");
            if (!comp_eq(&got2, &got, 0, why, sizeof(why))) sim_fail("MISMATCH(roundtrip)", "parse(unparse(\"%.60s\")) = parse(\"%.60s\") differs: %s", txt, canon, why);
            spif_url_del(u2);
            sim_free(canon);
        }
        if (!wellformed && o->slen > 3000) {
            /* too long for the reference's fields: the text is still rebuilt and parsed again, for what the allocator and the sanitizer have to say about it */
            if (spif_url_unparse(u)) {
                spif_url_t again = spif_url_new_from_ptr((spif_charptr_t)SPIF_STR_STR(SPIF_STR(u)));
                if (again) { get_components(again, &got3, "reparse of a long URL"); spif_url_del(again); }
            }
            probe_hit("url_of_several_kilobytes_rebuilt");
        }
        if (o->na > 4 && o->a[4] == 1) {
            /* the components are strings the URL owns: a copy taken now reports the same ones after the original is gone (and, a4 == 1 only in
               plans generated after seeded round 13, after a fresh URL was built in the storage the original gave back) */
            spif_url_t c = spif_url_dup(u), filler;
            if (!c) sim_fail("MISMATCH(constructor)", "spif_url_dup returned NULL");
            if (wellformed) get_components(u, &got, "before the copy");
            spif_url_del(u);
            filler = spif_url_new_from_ptr((spif_charptr_t)"zz://filler:pw@filler.example:99/filler?filler");
            u = c;
            get_components(u, &got3, "copy");
            if (wellformed && !comp_eq(&got3, &got, 0, why, sizeof(why))) sim_fail("MISMATCH(copy)", "a copy of the URL parsed from \"%.60s\", read after the original was deleted: %s", txt, why);
            if (filler) spif_url_del(filler);
            probe_hit("copy_outlives_original");
        }
        tr_printf("url %.60s -> %d%d%d%d%d%d%d port=%s", txt, got.has[0], got.has[1], got.has[2], got.has[3], got.has[4], got.has[5], got.has[6], got.has[U_PORT] ? got.port : "-");
        spif_url_del(u);
        sim_free(txt);
    }
    R.cur_op = NULL;
    if (sa_live_count()) sim_fail("LEAK", "%zu blocks left after deleting every URL", sa_live_count());
}

static void gen_word(rng_t *r, char *out, int lo, int hi, const char *alpha)
{
    int n = rng_range(r, lo, hi), al = (int)strlen(alpha);
    for (int i = 0; i < n; i++) out[i] = alpha[rng_below(r, (uint32_t)al)];
    out[n] = 0;
}
static void gen_c14(plan_t *p, rng_t *r)
{
    static const char *protos[] = { "http", "ftp", "tcp", "udp", "ip", "dns", "odd", "unix", "mailto", "x9", "dual", "file", "amanda", "top",
                                    "HTTP", "Ftp", "X9", "abcdefghijklmnopqrstuvwxyz01234", "abcdefghijklmnopqrstuvwxyz012345", "abcdefghijklmnopqrstuvwxyz0123456" };      /* upper case; 31, 32, 33 characters */
    static const int paints[] = { 0x00, 0xFF, 0xA5, 0x5A, 'a' };
    static const char *portfmt[] = { "%u", "%u", "%u", "%u", "%04u", "%07u", "%05u" };
    int nops = rng_range(r, 1, 20 * sim_tier_scale());
#define HOSTAL (rng_chance(r, 1, 4) ? "abcxyzABZ019.-" : "abcxyz019.-")
#define LONGW(lo, hi) (rng_chance(r, 1, 12) ? 31 + (int)rng_below(r, 3) : rng_chance(r, 1, 20) ? 63 : rng_range(r, lo, hi))
    plan_knob(p, "ns", (long)rng_below(r, 256));
    plan_knob(p, "alloc.fill", rng_range(r, 0, 4));
    plan_knob(p, "alloc.zero", rng_chance(r, 1, 4)); plan_knob(p, "alloc.realloc0", rng_chance(r, 1, 4));      /* the two readings ISO C allows for a request of no bytes */
    plan_knob(p, "alloc.realloc", rng_range(r, 0, 2));
    for (int i = 0; i < nops; i++) {
        static char txt[40000]; char w[1300];
        size_t n = 0;
        int wf = rng_chance(r, 4, 5);
        op_t *o;
        if (i && rng_chance(r, 1, 10)) plan_op(p, 0, "ns", 1, (long)rng_below(r, 256));      /* the name service changes its mind */
        if (wf) {
            int hasproto = rng_chance(r, 3, 4), hashost = rng_chance(r, 5, 6), hasuser, haspw, hasport, haspath, hasquery;
            if (hasproto) hashost = 1; else if (rng_chance(r, 1, 3)) hashost = 0;      /* accepted shape: host is optional only for bare paths */
            /* (without a protocol, "word:" at the start reads as one if the word is all alphanumeric: whether a text is inside the
               accepted shape and unambiguous is decided from the text by the executor, not here) */
            hasuser = hashost && rng_chance(r, 1, 3); haspw = hasuser && (hasproto || rng_chance(r, 1, 2)) && rng_chance(r, 1, 2);
            hasport = hashost && (hasproto || rng_chance(r, 1, 2)) && rng_chance(r, 1, 3);
            haspath = rng_chance(r, 2, 3) || !hashost; hasquery = rng_chance(r, 1, 3);
            if (rng_chance(r, 1, 4)) {
                /* the same shape, assembled through the setters instead of parsed from text */
                char c[7][64]; long mask = 0; size_t m = 0;
                static const char *empty = "";
                snprintf(c[0], 64, "%s", hasproto ? protos[rng_below(r, rng_chance(r, 1, 5) ? 20 : 14)] : empty);
                gen_word(r, c[1], 1, 6, "abcxyz019"); gen_word(r, c[2], 1, 6, "abc019::"); gen_word(r, c[3], 1, 12, "abcxyz019.-");
                snprintf(c[4], 64, "%u", rng_below(r, 65536));
                c[5][0] = '/'; gen_word(r, c[5] + 1, 0, 20, "abc/._-@:"); gen_word(r, c[6], 0, 20, "abc=&?/:@ ");
                if (hasproto) mask |= 1; if (hasuser) mask |= 2; if (haspw) mask |= 4; if (hashost) mask |= 8; if (hasport) mask |= 16; if (haspath) mask |= 32; if (hasquery) mask |= 64;
                for (int q = 0; q < 7; q++) { m += (size_t)snprintf(txt + m, sizeof(txt) - m, "%s%s", q ? "\001" : "", c[q]); }
                o = plan_op(p, 0, "asm", 1, mask);
                op_str(o, txt, m);
                continue;
            }
            if (hasproto) n += (size_t)snprintf(txt + n, sizeof(txt) - n, "%s:", protos[rng_below(r, rng_chance(r, 1, 5) ? 20 : 14)]);
            if (hashost && (hasproto ? rng_chance(r, 5, 6) : rng_chance(r, 1, 2))) n += (size_t)snprintf(txt + n, sizeof(txt) - n, "//");
            if (hasuser) { int ul = LONGW(1, 6); gen_word(r, w, ul, ul, rng_chance(r, 1, 4) ? "abcXYZ019" : "abcxyz019"); n += (size_t)snprintf(txt + n, sizeof(txt) - n, "%s", w); if (haspw) { gen_word(r, w, 1, 6, "abc019::"); n += (size_t)snprintf(txt + n, sizeof(txt) - n, ":%s", w); } n += (size_t)snprintf(txt + n, sizeof(txt) - n, "@"); }
            if (hashost) { static const int big[] = { 100, 254, 255, 256, 257, 600, 1023, 1024, 1100 };
                           int hl = rng_chance(r, 1, 25) ? big[rng_below(r, 9)] : LONGW(1, 12); gen_word(r, w, hl, hl, HOSTAL);      /* now and then a host as long as any scratch buffer one might copy it into */ n += (size_t)snprintf(txt + n, sizeof(txt) - n, "%s", w);
                           if (hasport) { n += (size_t)snprintf(txt + n, sizeof(txt) - n, ":"); n += (size_t)snprintf(txt + n, sizeof(txt) - n, portfmt[rng_below(r, 7)], rng_chance(r, 1, 10) ? 1234567 : rng_below(r, 65536)); } }
            if (haspath) {
                if (rng_chance(r, 1, 60)) {
                    /* a component of several kilobytes (and, one time in two, a second one behind it): the sizes where a string's growth policy may change.  Beyond the
                       reference's fields, so only what the sanitizer and the allocator see is checked */
                    static const int huge[] = { 4090, 4096, 4097, 5000, 8191, 8200, 10000 };
                    int pl = huge[rng_below(r, 7)]; txt[n++] = '/'; txt[n++] = 'p'; for (int q = 1; q < pl; q++) txt[n++] = "abc/._-"[rng_below(r, 7)]; txt[n] = 0;
                    if (rng_chance(r, 1, 2)) { int ql = huge[rng_below(r, 7)]; txt[n++] = '?'; for (int q = 0; q < ql; q++) txt[n++] = "abc=&"[rng_below(r, 5)]; txt[n] = 0; hasquery = 0; }
                }
                else if (rng_chance(r, 1, 15)) { int pl = rng_range(r, 200, 254); txt[n++] = '/'; txt[n++] = 'p'; for (int q = 1; q < pl; q++) txt[n++] = "abc/._-"[rng_below(r, 7)]; txt[n] = 0; }       /* a long path */
                else { gen_word(r, w, 0, 20, rng_chance(r, 1, 4) ? "abC/._-@:" : "abc/._-@:"); n += (size_t)snprintf(txt + n, sizeof(txt) - n, "/%s", w); }
            }
            if (hasquery) { gen_word(r, w, 0, 20, "abc=&?/:@ "); n += (size_t)snprintf(txt + n, sizeof(txt) - n, "?%s", w); }
            txt[n] = 0;
        } else {
            size_t pre = 0;
            if (rng_chance(r, 1, 2)) pre = (size_t)snprintf(txt, sizeof(txt), "%s:", protos[rng_below(r, 14)]);       /* every lookup outcome crossed with arbitrary remainders: "http:", "tcp://", "odd:?q" */
            n = pre + (size_t)(rng_chance(r, 1, 20) ? rng_range(r, 250, 1500) : rng_range(r, 0, 60));
            for (size_t j = pre; j < n; j++) txt[j] = rng_chance(r, 1, 3) ? ":/@?."[rng_below(r, 5)] : rng_chance(r, 1, 8) ? (char)(1 + rng_below(r, 255)) : (char)('a' + rng_below(r, 6));
            txt[n] = 0;
        }
        o = plan_op(p, 0, "url", 5, (long)paints[rng_below(r, 5)], (long)wf, (long)paints[rng_below(r, 5)], (long)rng_chance(r, 1, 4), (long)rng_chance(r, 1, 4));     /* a3: construct from a string object; a4: a copy outlives the original */
        op_str(o, txt, n);
    }
}

/* =====================================================================================================
 * C15
 * ===================================================================================================== */
const spifmem_memrec_t *simacc_malloc_rec(void);
#define NPTR 12
typedef struct { void *p; size_t size; char file[24]; unsigned long line; int tracked; } shadow_t;
static shadow_t sh[NPTR];
/* call sites: a handful of line numbers come up again and again (the same line in two files is two call sites) */
#define C15_LINE(r) ((long)(rng_chance((r), 1, 3) ? 1 + rng_below((r), 3) : rng_below((r), 5000)))
static const char *files[] = { "a.c", "twenty_characters__.c", "a_file_name_that_is_much_longer_than_twenty.c", "nineteen_chars___.c", "x",
                               "exactly_twenty_chr.c" /* 20: fills the field with no room to spare */, "exactly_twenty_chr.cc" /* 21: cut to the name before */, "exactly_twenty_chr.h" /* 20, differs in the last one only */,
                               "caf\xe9_tools.c", "\xfc" "ber/r\xc3\xa9sum\xc3\xa9_longer_than_twenty.c" /* bytes above 0x7f are characters of a name like any other */ };

const char *shim_file(void);
void *shim_malloc(size_t n, unsigned long *line);
void *shim_calloc(size_t n, unsigned long *line);
void *shim_realloc(void *p, size_t n, unsigned long *line);
char *shim_strdup(const char *s, unsigned long *line);
int shim_debug_compiled(void);
static int viamacro;
/* a few hundred further tracked blocks, so that the table passes 255 and 256 records while single blocks come and go (an index or a
   counter that is one byte wide would wrap there) */
#define NBULK 320
static void *bulk[NBULK]; static size_t bulk_size[NBULK]; static int nbulk;
static void check_bulk(const char *when)
{
    const spifmem_memrec_t *rec = simacc_malloc_rec();
    for (int i = 0; i < nbulk; i++) {
        int hits = 0;
        for (size_t k = 0; k < rec->cnt; k++) if (rec->ptrs[k].ptr == bulk[i]) { hits++; if (rec->ptrs[k].size != bulk_size[i]) sim_fail("MISMATCH(table-size)", "%s: record %zu of a large table says %zu bytes, requested %zu", when, k, (size_t)rec->ptrs[k].size, bulk_size[i]); }
        if (hits != 1) sim_fail("MISMATCH(table-records)", "%s: block %d of a large table has %d records", when, i, hits);
    }
}

static void check_table(const char *when)
{
    const spifmem_memrec_t *rec = simacc_malloc_rec();
    size_t want = 0;
    for (int i = 0; i < NPTR; i++) if (sh[i].p && sh[i].tracked) want++;
    want += (size_t)nbulk;
    if (rec->cnt != want) sim_fail("MISMATCH(table-count)", "%s: tracker holds %zu records, %zu tracked blocks are live", when, (size_t)rec->cnt, want);
    /* where the table lives is the tracker's business (a static array for the first few records would do): only a table that claims to be
       on the heap has to be a live block of the right size */
    if (rec->cnt && sa_in_arena(rec->ptrs) && !sa_readable(rec->ptrs, rec->cnt * sizeof(spifmem_ptr_t))) sim_fail("INVARIANT(table-block)", "%s: table is not a live block of cnt records", when);
    for (int i = 0; i < NPTR; i++) {
        int hits = 0;
        if (!sh[i].p || !sh[i].tracked) continue;
        for (size_t k = 0; k < rec->cnt; k++) {
            const spifmem_ptr_t *e = &rec->ptrs[k];
            if (e->ptr != sh[i].p) continue;
            hits++;
            if (e->size != sh[i].size) sim_fail("MISMATCH(table-size)", "%s: record for block %d says %zu bytes, most recently requested %zu", when, i, (size_t)e->size, sh[i].size);
            if (strncmp((const char *)e->file, sh[i].file, 20) || strlen((const char *)e->file) > 20) sim_fail("MISMATCH(table-file)", "%s: record for block %d names \"%.30s\", expected \"%.20s\"", when, i, (const char *)e->file, sh[i].file);
            if (e->line != sh[i].line) sim_fail("MISMATCH(table-line)", "%s: record for block %d says line %lu, expected %lu", when, i, (unsigned long)e->line, sh[i].line);
        }
        if (hits != 1) sim_fail("MISMATCH(table-records)", "%s: live block %d has %d records", when, i, hits);
    }
}

/* "frees" means the block really goes back to the allocator (the same serial must not be live afterwards) */
static uint32_t blk_serial(const void *q) { void *b; size_t sz; int live; uint32_t ser = 0; if (q && sa_lookup(q, &b, &sz, &live, &ser) && live) return ser; return 0; }
static void must_be_freed(const void *old, uint32_t serial, const char *what)
{
    void *b; size_t sz; int live; uint32_t ser = 0;
    if (!old || !serial) return;
    if (sa_lookup(old, &b, &sz, &live, &ser) && live && ser == serial)
        sim_fail("MISMATCH(not-freed)", "%s: the block is still allocated afterwards", what);
    probe_hit("release_verified");
}
static void exec_c15_api(const plan_t *p)
{
    memset(sh, 0, sizeof(sh)); memset(bulk, 0, sizeof(bulk)); nbulk = 0;
    viamacro = (int)plan_get(p, "viamacro", 0);
    if (viamacro) probe_hit("via_macros");
    libast_debug_level = (unsigned int)plan_get(p, "level0", 5);
    for (int i = 0; i < p->nops; i++) {
        op_t *o = (op_t *)&p->ops[i];
        const char *k = o->kind;
        int s = (int)o->a[0], tracking = libast_debug_level >= 5 && (!viamacro || shim_debug_compiled() >= 5);
        size_t size = (size_t)o->a[1];
        const char *file = files[(size_t)o->a[2] % 10];
        unsigned long line = (unsigned long)o->a[3];
        R.cur_op = o; R.cur_op_index = i; R.op_steps = 0;
        if (s < 0 || s >= NPTR) sim_skip("bad-slot");
        if (!strcmp(k, "level")) { libast_debug_level = 5; probe_hit("tracking_switched_on"); }
        else if (!strcmp(k, "bulk")) {
            int n = (int)o->a[1];
            if (nbulk || !tracking || viamacro || n < 1 || n > NBULK) continue;
            for (int q = 0; q < n; q++) { bulk_size[q] = (size_t)(1 + q % 7); bulk[q] = spifmem_malloc("bulk.c", 100 + (unsigned long)q, bulk_size[q]); if (!bulk[q]) sim_fail("MISMATCH(alloc-null)", "malloc returned NULL"); }
            nbulk = n;
            check_bulk(k);
            probe_hit("table_beyond_255_records");
        } else if (!strcmp(k, "bulkfree")) {
            if (!nbulk) continue;
            check_bulk(k);
            /* from the middle outwards, so that removals hit high and low positions */
            for (int q = 0; q < nbulk; q++) { int z = (q % 2) ? nbulk / 2 + q / 2 : nbulk / 2 - 1 - q / 2; if (z < 0 || z >= nbulk || !bulk[z]) continue; spifmem_free("v", "bulk.c", 999, bulk[z]); bulk[z] = NULL; }
            for (int q = 0; q < nbulk; q++) if (bulk[q]) { spifmem_free("v", "bulk.c", 999, bulk[q]); bulk[q] = NULL; }
            nbulk = 0;
        }
        else if (!strcmp(k, "malloc") || !strcmp(k, "calloc") || !strcmp(k, "strdup")) {
            void *q;
            uint64_t before = sa_stat_reuses;
            if (sh[s].p) continue;
            if (k[0] == 'm') { if (viamacro) { q = shim_malloc(size, &line); file = shim_file(); } else q = spifmem_malloc(file, line, size); }
            else if (k[0] == 'c') { if (viamacro) { size *= 3; q = shim_calloc(size, &line); file = shim_file(); size /= 3; } else q = spifmem_calloc(file, line, size, 3); size *= 3; for (size_t z = 0; z < size; z++) if (((char *)q)[z]) sim_fail("MISMATCH(calloc-zero)", "calloc memory is not zeroed"); }
            else { char *t = blockdup(o->s ? o->s : (const unsigned char *)"", o->slen); if (viamacro) { q = shim_strdup(t, &line); file = shim_file(); } else q = spifmem_strdup("v", file, line, t); size = strlen(t) + 1; if (strcmp(q, t)) sim_fail("MISMATCH(strdup-content)", "strdup copy differs"); sim_free(t); }
            if (!q && !size && plan_get(p, "alloc.zero", 0)) { probe_hit("nothing_asked_nothing_given"); tr_printf("%s of no bytes -> NULL", k); if (libast_debug_level >= 5) check_table(k); continue; }      /* the C library answers a request for no bytes with NULL: nothing is live, nothing is recorded */
            if (!q) sim_fail("MISMATCH(alloc-null)", "%s returned NULL", k);
            if (sa_stat_reuses != before) probe_hit("address_reused_after_free");
            sh[s].p = q; sh[s].size = size; sh[s].tracked = tracking; sh[s].line = line; snprintf(sh[s].file, sizeof(sh[s].file), "%.20s", file);
            if (size) memset(q, 0x40 + s, size);
            if (strlen(file) > 20) probe_hit("filename_truncated");
        } else if (!strcmp(k, "realloc")) {
            void *q, *old = sh[s].p;
            uint32_t old_serial = blk_serial(old);
            size_t keep = sh[s].size < size ? sh[s].size : size;
            if (viamacro) { q = shim_realloc(old, size, &line); file = shim_file(); } else q = spifmem_realloc("v", file, line, old, size);
            if (!old && !size && !q) { probe_hit("realloc_null_zero"); }      /* realloc(NULL, 0): both clauses apply, either outcome is accepted */
            else if (!old) {                     /* realloc of NULL allocates */
                if (!q) sim_fail("MISMATCH(realloc-null)", "realloc(NULL, %zu) returned NULL", size);
                sh[s].p = q; sh[s].size = size; sh[s].tracked = tracking; sh[s].line = line; snprintf(sh[s].file, sizeof(sh[s].file), "%.20s", file);
                if (size) memset(q, 0x40 + s, size);
                probe_hit("realloc_of_null");
            } else if (size == 0) {               /* realloc to 0 frees */
                if (q) sim_fail("MISMATCH(realloc-zero)", "realloc(p, 0) returned a pointer");
                must_be_freed(old, old_serial, "realloc(p, 0)");
                sh[s].p = NULL; sh[s].size = 0;
                probe_hit("realloc_to_zero");
            } else {
                if (!q) sim_fail("MISMATCH(realloc-null)", "realloc returned NULL");
                for (size_t z = 0; z < keep; z++) if (((unsigned char *)q)[z] != (unsigned char)(0x40 + s)) sim_fail("MISMATCH(realloc-content)", "content not preserved across realloc");
                if (q != old) probe_hit("realloc_moved");
                sh[s].p = q; sh[s].size = size;
                if (sh[s].tracked) { sh[s].line = line; snprintf(sh[s].file, sizeof(sh[s].file), "%.20s", file); }
                else probe_hit("unknown_pointer_realloc");
                memset(q, 0x40 + s, size);
            }
        } else if (!strcmp(k, "free")) {
            int last = 1;
            if (!sh[s].p) { if (viamacro) shim_free(NULL); else spifmem_free("v", file, line, NULL); probe_hit("free_of_null"); continue; }
            for (int z = s + 1; z < NPTR; z++) if (sh[z].p && sh[z].tracked) last = 0;
            if (!last) probe_hit("remove_from_middle");
            if (!sh[s].tracked) probe_hit("unknown_pointer_free");
            { void *old = sh[s].p; uint32_t old_serial = blk_serial(old);
              if (viamacro) { if (shim_free(sh[s].p)) sim_fail("MISMATCH(free-nulls)", "FREE() did not null the pointer"); } else spifmem_free("v", file, line, sh[s].p);
              must_be_freed(old, old_serial, sh[s].tracked ? "free of a tracked block" : "free of a block the tracker does not know"); }
            sh[s].p = NULL; sh[s].size = 0;
        } else continue;
        tr_printf("%s slot%d size=%zu -> %llu", k, s, size, (unsigned long long)sa_offset(sh[s].p));
        if (libast_debug_level >= 5) check_table(k);
    }
    R.cur_op = NULL;
    if (nbulk) { unsigned int lv = libast_debug_level; libast_debug_level = 5; for (int q = 0; q < nbulk; q++) if (bulk[q]) { spifmem_free("v", "end.c", 2, bulk[q]); bulk[q] = NULL; } nbulk = 0; libast_debug_level = lv; }
    for (int i = 0; i < NPTR; i++) if (sh[i].p) { if (viamacro) shim_free(sh[i].p); else spifmem_free("v", "end.c", 1, sh[i].p); sh[i].p = NULL; }
    if (libast_debug_level >= 5) check_table("end");
    if (simacc_malloc_rec()->cnt) sim_fail("MISMATCH(table-count)", "tracker still holds %zu records after every block was freed", (size_t)simacc_malloc_rec()->cnt);
    if (sa_live_count() > 1) sim_fail("LEAK", "%zu blocks are still allocated after every block was freed (the tracker's own table may account for one)", sa_live_count());
}

void protosim_exec_program(const plan_t *p);
static void exec_c15(const plan_t *p)
{
    if (plan_get(p, "scenario", 0) == 1) {
#ifdef SIM_DEBUG5
        /* a library built with tracking compiled in reports an empty table once every object has been deleted */
        libast_debug_level = 5;
        protosim_exec_program(p);
        if (simacc_malloc_rec()->cnt) {
            const spifmem_memrec_t *rec = simacc_malloc_rec();
            sim_fail("MISMATCH(table-not-empty)", "tracker still holds %zu records after every object was deleted (first: %.20s:%lu, %zu bytes)",
                     (size_t)rec->cnt, (const char *)rec->ptrs[0].file, (unsigned long)rec->ptrs[0].line, (size_t)rec->ptrs[0].size);
        }
        probe_hit("object_program_on_tracking_build");
        libast_debug_level = 0;
#else
        sim_skip("needs-DEBUG5-build");
#endif
    } else exec_c15_api(p);
    libast_debug_level = 0;
}

void protosim_gen_program(plan_t *p, rng_t *r);
static void gen_c15(plan_t *p, rng_t *r)
{
    int nops = rng_range(r, 3, 80 * sim_tier_scale()), untracked_prefix;
#ifdef SIM_DEBUG5
    if (rng_chance(r, 1, 4)) { protosim_gen_program(p, r); plan_knob(p, "scenario", 1); return; }
    plan_knob(p, "viamacro", rng_chance(r, 1, 3));
#else
    plan_knob(p, "viamacro", rng_chance(r, 1, 2));          /* build without tracking compiled in: the macros map to the plain allocator; the tracker's own functions, called directly, track all the same */
#endif
    untracked_prefix = rng_chance(r, 1, 4) ? rng_range(r, 1, 10) : 0;
    plan_knob(p, "level0", untracked_prefix ? 4 : 5);
    plan_knob(p, "alloc.fill", rng_range(r, 0, 4));
    plan_knob(p, "alloc.zero", rng_chance(r, 1, 4)); plan_knob(p, "alloc.realloc0", rng_chance(r, 1, 4));      /* the two readings ISO C allows for a request of no bytes */
    plan_knob(p, "alloc.realloc", rng_range(r, 0, 2));
    plan_knob(p, "alloc.reuse", rng_chance(r, 2, 3) ? REUSE_LIFO : rng_range(r, 0, 2));
    int bulk_at = rng_chance(r, 1, 40) ? (int)rng_below(r, (uint32_t)nops) : -1, bulk_free_at = bulk_at >= 0 && rng_chance(r, 2, 3) ? bulk_at + 1 + (int)rng_below(r, (uint32_t)(nops - bulk_at)) : -1;
    for (int i = 0; i < nops; i++) {
        int k = (int)rng_below(r, 100), s = (int)rng_below(r, NPTR);
        long size = rng_chance(r, 1, 8) ? 0 : rng_chance(r, 1, 2) ? (long)rng_below(r, 32) : (long)rng_below(r, 600);
        if (untracked_prefix && i == untracked_prefix) plan_op(p, 0, "level", 1, 0L);
        if (i == bulk_at) { static const int bn[] = { 240, 243, 244, 250, 254, 255, 256, 300 }; plan_op(p, 0, "bulk", 2, 0L, (long)bn[rng_below(r, 8)]); }      /* the table passes 255 records */
        if (i == bulk_free_at) plan_op(p, 0, "bulkfree", 1, 0L);
        if (k < 30) plan_op(p, 0, "malloc", 4, (long)s, size, (long)rng_below(r, 10), C15_LINE(r));
        else if (k < 38) plan_op(p, 0, "calloc", 4, (long)s, size % 60, (long)rng_below(r, 10), C15_LINE(r));
        else if (k < 46) { op_t *o = plan_op(p, 0, "strdup", 4, (long)s, 0L, (long)rng_below(r, 10), C15_LINE(r)); char w[40]; gen_word(r, w, 0, 30, "abcdef "); op_str(o, w, strlen(w)); }
        else if (k < 72) plan_op(p, 0, "realloc", 4, (long)s, size, (long)rng_below(r, 10), C15_LINE(r));
        else plan_op(p, 0, "free", 4, (long)s, 0L, (long)rng_below(r, 10), C15_LINE(r));
    }
}

const engine_t envsim_c14_engine = { "envsim-url", "C14", gen_c14, exec_c14 };
const engine_t envsim_c15_engine = { "envsim-memtrack", "C15", gen_c15, exec_c15 };
const engine_t envsim_c17_engine = { "envsim-version", "C17", gen_c17, exec_c17 };
