#include "sim.h"
extern const engine_t selftest_engine, netsim_engine, strsim_engine, mbufsim_engine, listsim_engine, mapsim_engine, vectorsim_engine;
const engine_t *engines[] = { &selftest_engine, &netsim_engine, &strsim_engine, &mbufsim_engine, &listsim_engine, &mapsim_engine, &vectorsim_engine, 0 };
