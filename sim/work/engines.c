#include "sim.h"
extern const engine_t selftest_engine, netsim_engine;
const engine_t *engines[] = { &selftest_engine, &netsim_engine, 0 };
