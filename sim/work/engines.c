#include "sim.h"
extern const engine_t selftest_engine;
const engine_t *engines[] = { &selftest_engine, 0 };
