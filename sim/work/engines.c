#include "sim.h"
extern const engine_t selftest_engine, netsim_engine, strsim_engine, mbufsim_engine, listsim_engine, mapsim_engine, vectorsim_engine, protosim_c05_engine, protosim_c06_engine, envsim_c14_engine, envsim_c15_engine, envsim_c17_engine, confsim_c09_engine, confsim_c11_engine;
const engine_t *engines[] = { &selftest_engine, &netsim_engine, &strsim_engine, &mbufsim_engine, &listsim_engine, &mapsim_engine, &vectorsim_engine, &protosim_c05_engine, &protosim_c06_engine, &envsim_c14_engine, &envsim_c15_engine, &envsim_c17_engine, &confsim_c09_engine, &confsim_c11_engine, 0 };
