/* objsim/str: C01 -- str and ustr objects are faithful character-sequence values under any history.
 * Real str.c/ustr.c run over the simulated allocator (exact-size blocks, seeded realloc/reuse/fill policy),
 * simulated FILE* streams (seeded chunking) and simulated descriptors (short reads, EINTR, EAGAIN, EIO). */
#define _GNU_SOURCE
#include "sim.h"
#include "simfd.h"
#include "simtask.h"
#include "libast_h.h"
#include <string.h>
#include <stdlib.h>
#include <ctype.h>
#include <strings.h>

#define NSLOT 4
typedef struct { unsigned char *b; size_t len, cap; } mstr_t;
/* positions and counts can be given symbolically (flag argument == 1) and are then resolved against the length the object has
   when the operation runs: the generator's own idea of that length drifts after trims, splices and failed reads */
static long long sym_pos(long code, long long L)
{
    switch (code % 12) {
    case 0: return -L - 2; case 1: return -L - 1; case 2: return -L; case 3: return -1; case 4: return 0; case 5: return 1;
    case 6: return L / 2; case 7: return L - 1; case 8: return L; case 9: return L + 1; case 10: return L ? (code / 12) % L : 0; default: return 2000000000LL;
    }
}
static long long sym_cnt(long code, long long L, long long idx)
{
    long long at = idx < 0 ? idx + L : idx, rest = L - at;
    switch (code % 10) {
    case 0: return 0; case 1: return 1; case 2: return rest; case 3: return rest + 1; case 4: return rest - 1; case 5: return -1;
    case 6: return -rest; case 7: return (code / 10) % 5; case 8: return rest > 0 ? (code / 10) % (rest + 1) : 0; default: return 2000000000LL;
    }
}

static void *objs[NSLOT];
static mstr_t mod[NSLOT];
static long long exp_size = -1;

static void m_reserve(mstr_t *m, size_t n) { if (n + 1 > m->cap) { m->cap = (n + 1) * 2 + 16; m->b = realloc(m->b, m->cap); } }
static void m_reset(mstr_t *m) { m->len = 0; m_reserve(m, 0); m->b[0] = 0; }
static void m_free(mstr_t *m) { free(m->b); m->b = NULL; m->cap = m->len = 0; }
static void m_set(mstr_t *m, const void *p, size_t n) { m_reserve(m, n); if (n) memmove(m->b, p, n); m->len = n; m->b[n] = 0; }
static void m_insert(mstr_t *m, size_t at, const unsigned char *p, size_t n)
{
    unsigned char *tmp;
    if (!n) return;
    tmp = malloc(n); memcpy(tmp, p, n);            /* p may alias m->b */
    m_reserve(m, m->len + n);
    memmove(m->b + at + n, m->b + at, m->len - at);
    memcpy(m->b + at, tmp, n);
    m->len += n; m->b[m->len] = 0;
    free(tmp);
}
static void m_delete(mstr_t *m, size_t at, size_t n) { memmove(m->b + at, m->b + at + n, m->len - at - n); m->len -= n; m->b[m->len] = 0; }
static char *m_cstr(const mstr_t *m) { char *c = malloc(m->len + 1); memcpy(c, m->b, m->len); c[m->len] = 0; return c; }

/* ---- two instantiations of the executor ---- */
#define CAT2(a, b) a##b
#define CAT(a, b) CAT2(a, b)

#define T spif_str_t
#define FN(name) spif_str_##name
#define CHK(name) CAT(str_, name)
#define EXECNAME exec_str
#define CLSNAME "!spif_str_t!"
#define CLSTAB SPIF_STRCLASS_VAR(str)
#include "strsim.inc"
#undef T
#undef FN
#undef CHK
#undef EXECNAME
#undef CLSNAME
#undef CLSTAB

#define T spif_ustr_t
#define FN(name) spif_ustr_##name
#define CHK(name) CAT(ustr_, name)
#define EXECNAME exec_ustr
#define CLSNAME "!spif_ustr_t!"
#define CLSTAB SPIF_STRCLASS_VAR(ustr)
#include "strsim.inc"

static void exec(const plan_t *p)
{
    if (plan_get(p, "cls", 0)) exec_ustr(p); else exec_str(p);
}

/* ------------------------------------------------------------------ generator */
static size_t glen[NSLOT]; static int gexists[NSLOT], gdone[NSLOT];

static size_t gen_text(rng_t *r, unsigned char *buf, size_t max, int regime)
{
    /* regime 0 tiny, 1 around a 4096 boundary, 2 multi-chunk, 3 whitespace-rich, 4 numeric */
    static const char alpha[] = "abcXYZ mn0189-_.\t q~";
    size_t n;
    switch (regime) {
    case 1: { static const int b[] = { 4094, 4095, 4096, 4097, 8191, 8192, 8193, 8189, 8190, 12284, 12285 }; n = (size_t)b[rng_below(r, 11)]; break; }      /* read() chunks are 4096 bytes, fgets() chunks 4095 */
    case 2: n = (size_t)rng_range(r, 4098, 16000); break;
    default: { int k = (int)rng_below(r, 10); n = k < 2 ? 0 : k < 4 ? 1 : k < 8 ? (size_t)rng_range(r, 2, 16) : (size_t)rng_range(r, 17, 120); break; }
    }
    if (n > max) n = max;
    for (size_t i = 0; i < n; i++) {
        if (regime == 4) buf[i] = (unsigned char)"0123456789abcdefx.-+ e"[rng_below(r, 22)];
        else if (regime == 3) buf[i] = (unsigned char)(rng_chance(r, 1, 2) ? " \t\n\r\f\v"[rng_below(r, 6)] : alpha[rng_below(r, 20)]);
        else if (rng_chance(r, 1, 40)) buf[i] = (unsigned char)(128 + rng_below(r, 128));
        else buf[i] = (unsigned char)alpha[rng_below(r, 20)];
    }
    if (regime == 3 && n > 2 && rng_chance(r, 1, 2)) { buf[0] = ' '; buf[n - 1] = '\t'; }
    return n;
}
static long gen_index(rng_t *r, size_t len)
{
    long L = (long)len;
    switch (rng_below(r, 12)) {
    case 0: { static const long lo[] = { -1000000000L, -2147483648L, -2147483649L, -9223372036854775807L, -9223372036854775807L - 1 }; return lo[rng_below(r, 5)]; }
    case 1: return -L - 1;
    case 2: return -L;
    case 3: return -1;
    case 4: return 0;
    case 5: return 1;
    case 6: return L / 2;
    case 7: return L - 1;
    case 8: return L;
    case 9: return L + 1;
    case 10: { static const long hi[] = { 2000000000L, 2147483647L, 2147483648L, 4294967296L, 9223372036854775807L, 9223372036854775806L }; long v = hi[rng_below(r, 6)]; return v == 9223372036854775806L ? 9223372036854775807L - L : v; }      /* (up to the very top of the index type: a sum with the other argument wraps) */
    default: return L ? (long)rng_below(r, (uint32_t)L) : 0;
    }
}
static void gen_read_faults(op_t *o, rng_t *r, int hard, int nonblock)
{
    int n = rng_range(r, 0, 10);
    for (int i = 0; i < n; i++) {
        int k = (int)rng_below(r, 100);
        static const int lims[] = { 1, 2, 3, 7, 100, 1000, 4095, 4096, 4097, 5000 };
        if (k < 25) op_fault(o, FAULT(FC_READ, FO_FULL, 0));
        else if (k < 70) op_fault(o, FAULT(FC_READ, FO_SHORT, lims[rng_below(r, 10)]));
        else if (k < 92) op_fault(o, FAULT(FC_READ, FO_EINTR, 0));
        else if (k < 96 && nonblock) op_fault(o, FAULT(FC_READ, FO_EAGAIN, 0));
        else if (hard && k >= 96) op_fault(o, FAULT(FC_READ, FO_EIO, 0));
        else op_fault(o, FAULT(FC_READ, FO_SHORT, 1 + (int)rng_below(r, 6000)));
    }
}

static int pick_live(rng_t *r)
{
    int c[NSLOT], n = 0;
    for (int i = 0; i < NSLOT; i++) if (gexists[i]) c[n++] = i;
    return n ? c[rng_below(r, (uint32_t)n)] : -1;
}
static int pick_free(rng_t *r)
{
    int c[NSLOT], n = 0;
    for (int i = 0; i < NSLOT; i++) if (!gexists[i]) c[n++] = i;
    return n ? c[rng_below(r, (uint32_t)n)] : -1;
}

static void gen_constructor(plan_t *p, rng_t *r, int slot, int isnew, int hard, int big)
{
    static unsigned char buf[20000];
    const char *pre = isnew ? "new" : "init";
    char kind[24];
    int which = (int)rng_below(r, 100), regime = big && rng_chance(r, 1, 2) ? rng_range(r, 1, 2) : rng_chance(r, 1, 6) ? 3 : rng_chance(r, 1, 8) ? 4 : 0;
    size_t n;
    op_t *o;
    if (which < 15) { snprintf(kind, sizeof(kind), "%s", pre); plan_op(p, 0, kind, 1, (long)slot); glen[slot] = 0; }
    else if (which < 40) {
        snprintf(kind, sizeof(kind), "%s_ptr", pre);
        o = plan_op(p, 0, kind, 1, (long)slot);
        if (!rng_chance(r, 1, 25)) { n = gen_text(r, buf, sizeof(buf), regime); op_str(o, buf, n); glen[slot] = n; } else glen[slot] = 0;
    } else if (which < 55) {
        long size;
        snprintf(kind, sizeof(kind), "%s_buff", pre);
        n = gen_text(r, buf, sizeof(buf), regime > 2 ? 0 : regime);
        size = rng_chance(r, 1, 3) ? (long)n : rng_chance(r, 1, 2) ? (long)rng_below(r, (uint32_t)n + 1) : (long)n + 1 + (long)rng_below(r, 40);
        o = plan_op(p, 0, kind, 2, (long)slot, size);
        if (!rng_chance(r, 1, 20)) op_str(o, buf, n);
        glen[slot] = o->has_s ? ((size_t)size < n ? (size_t)size : n) : 0;
    } else if (which < 63) {
        static const long nums[] = { 0, 1, -1, 42, 2147483647L, -2147483648L, 9223372036854775807L, (-9223372036854775807L - 1) };
        snprintf(kind, sizeof(kind), "%s_num", pre);
        plan_op(p, 0, kind, 2, (long)slot, rng_chance(r, 1, 2) ? nums[rng_below(r, 8)] : (long)rng_u64(r));
        glen[slot] = 8;
    } else if (which < 82) {
        int nlines = rng_chance(r, 2, 3) ? 1 : rng_range(r, 2, 4);
        size_t tot = 0;
        snprintf(kind, sizeof(kind), "%s_fp", pre);
        for (int ln = 0; ln < nlines; ln++) {
            int rg = (ln == nlines - 1 || rng_chance(r, 1, 3)) && (big || rng_chance(r, 1, 4)) ? rng_range(r, 1, 2) : 0;
            if (tot + 16100 > sizeof(buf)) rg = 0;
            n = gen_text(r, buf + tot, sizeof(buf) - tot - 2, rg);
            for (size_t i = 0; i < n; i++) if (buf[tot + i] == '\n') buf[tot + i] = ' ';
            glen[slot] = n;
            tot += n;
            if (ln < nlines - 1 || rng_chance(r, 2, 3)) buf[tot++] = '\n';
        }
        if (rng_chance(r, 1, 10)) { tot = 0; glen[slot] = 0; }        /* immediate EOF */
        if (rng_chance(r, 1, 5)) o = plan_op(p, 0, kind, 3, (long)slot, (long)nlines, 1L);       /* a stream over a descriptor */
        else o = plan_op(p, 0, kind, 2, (long)slot, (long)nlines);
        op_str(o, buf, tot);
        { int trans = o->na == 2 && nlines > 1 && !hard && rng_chance(r, 1, 2), nf = trans ? rng_range(r, 0, 2) : rng_range(r, 0, 8); static const int lims[] = { 1, 2, 3, 100, 1000, 4094, 4095, 4096 };
          for (int i = 0; i < nf; i++) op_fault(o, rng_chance(r, 1, 3) ? FAULT(FC_READ, FO_FULL, 0) : FAULT(FC_READ, FO_SHORT, lims[rng_below(r, 8)]));
          if (hard && rng_chance(r, 1, 3)) op_fault(o, FAULT(FC_READ, FO_EIO, 0));       /* the stream fails after nf reads */
          else if (o->na == 2 && nlines == 1 && !hard && rng_chance(r, 1, 3)) { op_fault(o, FAULT(FC_READ, FO_EAGAIN, 0)); }      /* a single construction from a source that has nothing more to give just now, after 0..8 reads (some of them short: part of the line is there already) */
          else if (trans) { op_fault(o, FAULT(FC_READ, FO_ETRANSIENT, 0)); if (rng_chance(r, 1, 2)) op_fault(o, FAULT(FC_READ, FO_SHORT, lims[rng_below(r, 8)])); }      /* ... or one read fails and the next ones work: the caller asks again, on the same stream */
        }
    } else {
        int nb = rng_chance(r, 1, 4);
        snprintf(kind, sizeof(kind), "%s_fd", pre);
        n = gen_text(r, buf, sizeof(buf), big || rng_chance(r, 1, 3) ? rng_range(r, 1, 2) : 0);
        if (rng_chance(r, 1, 4)) { o = plan_op(p, 0, kind, 4, (long)slot, 0L, 1L, (long)(rng_chance(r, 1, 2) ? rng_below(r, (uint32_t)n + 1) : 0)); nb = 0; }      /* a regular file, read from its start or from an offset */
        else o = plan_op(p, 0, kind, 2, (long)slot, (long)nb);
        op_str(o, buf, n);
        gen_read_faults(o, r, hard, nb);
        glen[slot] = n;
    }
    gexists[slot] = 1; gdone[slot] = 0;
}

static void gen(plan_t *p, rng_t *r)
{
    static unsigned char buf[20000];
    int nops = rng_range(r, 4, 40 * sim_tier_scale()), hard = rng_chance(r, 1, 6), big = rng_chance(r, 1, 5);
    memset(gexists, 0, sizeof(gexists)); memset(glen, 0, sizeof(glen)); memset(gdone, 0, sizeof(gdone));
    plan_knob(p, "cls", rng_chance(r, 1, 2));
    plan_knob(p, "viaclass", rng_chance(r, 1, 3));
    plan_knob(p, "hard", hard);
    plan_knob(p, "alloc.fill", rng_range(r, 0, 4));
    plan_knob(p, "alloc.zero", rng_chance(r, 1, 4)); plan_knob(p, "alloc.realloc0", rng_chance(r, 1, 4));      /* the two readings ISO C allows for a request of no bytes */
    plan_knob(p, "alloc.realloc", rng_chance(r, 1, 2) ? REALLOC_MOVE : rng_range(r, 1, 2));
    plan_knob(p, "alloc.reuse", rng_range(r, 0, 2));
    gen_constructor(p, r, 0, 1, hard, big);
    for (int i = 0; i < nops; i++) {
        int s = pick_live(r), k = (int)rng_below(r, 100), fs;
        op_t *o;
        size_t n;
        if (s < 0 || (k < 8 && (fs = pick_free(r)) >= 0 && (s = fs, 1))) {
            if (s < 0) s = 0;
            if (!gexists[s]) { gen_constructor(p, r, s, 1, hard, big && rng_chance(r, 1, 3)); continue; }
        }
        if (gdone[s] && k < 60) { gen_constructor(p, r, s, 0, hard, 0); continue; }
        if (k < 14) {
            int os = pick_live(r);
            if (os == s && !rng_chance(r, 1, 3)) os = rng_chance(r, 1, 2) ? -1 : (s + 1) % NSLOT;      /* one time in three the object itself is the argument */
            else if (rng_chance(r, 1, 20)) os = -1;
            plan_op(p, 0, rng_chance(r, 1, 2) ? "append" : "prepend", 2, (long)s, (long)os);
            if (os >= 0 && gexists[os]) glen[s] += glen[os];
        } else if (k < 24) {
            plan_op(p, 0, rng_chance(r, 1, 2) ? "append_char" : "prepend_char", 2, (long)s, (long)(rng_chance(r, 1, 8) ? " \t"[rng_below(r, 2)] : rng_chance(r, 1, 8) ? 128 + rng_below(r, 128) : 33 + rng_below(r, 90)));
            glen[s]++;
        } else if (k < 34) {
            o = plan_op(p, 0, rng_chance(r, 1, 2) ? "append_ptr" : "prepend_ptr", 1, (long)s);
            if (!rng_chance(r, 1, 20)) { n = gen_text(r, buf, sizeof(buf), rng_chance(r, 1, 25) ? 1 : rng_chance(r, 1, 6) ? 3 : 0); op_str(o, buf, n); glen[s] += n; }
        } else if (k < 38) plan_op(p, 0, "clear", 2, (long)s, (long)(33 + rng_below(r, 90)));
        else if (k < 42) plan_op(p, 0, rng_chance(r, 1, 2) ? "downcase" : "upcase", 1, (long)s);
        else if (k < 45) plan_op(p, 0, "reverse", 1, (long)s);
        else if (k < 50) plan_op(p, 0, "trim", 1, (long)s);
        else if (k < 58) {
            long idx = gen_index(r, glen[s]), cnt = rng_chance(r, 1, 2) ? (long)rng_below(r, 4) : gen_index(r, glen[s]);
            int symb = rng_chance(r, 1, 2);            /* position and count as classes relative to the real length */
            if (symb) { idx = (long)rng_below(r, 12) + 12 * (long)rng_below(r, 5000); cnt = (long)rng_below(r, 10) + 10 * (long)rng_below(r, 5000); }
            if (rng_chance(r, 1, 2)) {
                int os = pick_live(r);
                if (os == s && !rng_chance(r, 1, 3)) os = -1;
                plan_op(p, 0, "splice", 5, (long)s, idx, cnt, (long)os, (long)symb);
            } else {
                o = plan_op(p, 0, "splice_ptr", 5, (long)s, idx, cnt, 0L, (long)symb);
                if (!rng_chance(r, 1, 8)) { n = gen_text(r, buf, sizeof(buf), 0); op_str(o, buf, n); }
            }
        } else if (k < 62) {
            int pow2 = rng_chance(r, 1, 8);         /* one in eight: a result whose length is a power of two, or one or two off it (a scratch buffer of any such size, filled exactly) */
            if (rng_chance(r, 1, 10)) o = plan_op(p, 0, "sprintf", 4, (long)s, (long)rng_below(r, 3), (long)(int)rng_u64(r), (long)rng_range(r, 1, 2));      /* the formatter fails at its first or second call */
            else o = plan_op(p, 0, "sprintf", 3, (long)s, pow2 && rng_chance(r, 2, 3) ? 0L : (long)rng_below(r, 6), (long)(int)rng_u64(r));
            size_t want = pow2 ? (size_t)((1 << rng_range(r, 4, 13)) + rng_range(r, -2, 1)) : 0;
            n = pow2 ? gen_text(r, buf, want, 2) : rng_chance(r, 1, 6) ? gen_text(r, buf, 15000, rng_range(r, 1, 2)) : gen_text(r, buf, 60, 0);       /* one in six formats several kilobytes */
            while (n < want) buf[n++] = 'a';
            for (size_t j = 0; j < n; j++) if (buf[j] == '%') buf[j] = 'p';
            op_str(o, buf, n);
            glen[s] = n + 4;
        } else if (k < 66) { plan_op(p, 0, "done", 1, (long)s); gdone[s] = 1; glen[s] = 0; }
        else if (k < 69) { plan_op(p, 0, "del", 1, (long)s); gexists[s] = 0; glen[s] = 0; }
        else if (k < 74) plan_op(p, 0, rng_chance(r, 1, 2) ? "index" : "rindex", 2, (long)s, (long)(rng_chance(r, 1, 3) ? 'a' + rng_below(r, 4) : rng_chance(r, 1, 8) ? 128 + rng_below(r, 128) : rng_chance(r, 1, 8) ? " \t"[rng_below(r, 2)] : 33 + rng_below(r, 90)));
        else if (k < 79) {
            if (rng_chance(r, 1, 2)) plan_op(p, 0, "find", 2, (long)s, (long)(rng_chance(r, 1, 10) ? -1 : pick_live(r)));
            else if (rng_chance(r, 1, 2)) { o = plan_op(p, 0, "find_ptr", 2, (long)s, (long)(1 + rng_below(r, 7)) + 8 * (long)rng_below(r, 5000)); op_str(o, "x", 1); }      /* needle derived from the text */
            else { o = plan_op(p, 0, "find_ptr", 1, (long)s); if (!rng_chance(r, 1, 15)) { n = gen_text(r, buf, 6, 0); op_str(o, buf, n); } }
        } else if (k < 85) { if (rng_chance(r, 1, 2)) plan_op(p, 0, rng_chance(r, 1, 2) ? "substr" : "substr_ptr", 4, (long)s, (long)rng_below(r, 12) + 12 * (long)rng_below(r, 5000), (long)rng_below(r, 10) + 10 * (long)rng_below(r, 5000), 1L);
          else plan_op(p, 0, rng_chance(r, 1, 2) ? "substr" : "substr_ptr", 3, (long)s, gen_index(r, glen[s]), rng_chance(r, 1, 2) ? (long)rng_below(r, 5) - 1 : gen_index(r, glen[s])); }
        else if (k < 91) {
            long nn = rng_chance(r, 1, 2) ? (long)rng_below(r, 6) : (long)rng_below(r, (uint32_t)glen[s] + 3);
            if (rng_chance(r, 1, 4)) {
                /* a copy, made slightly different, compared in every way with counts around the length */
                int d = pick_free(r);
                if (d >= 0) {
                    plan_op(p, 0, "dup", 2, (long)s, (long)d);
                    if (rng_chance(r, 1, 2)) plan_op(p, 0, "append_char", 2, (long)d, (long)('a' + rng_below(r, 26)));
                    else if (rng_chance(r, 1, 2)) plan_op(p, 0, rng_chance(r, 1, 2) ? "upcase" : "downcase", 1, (long)d);
                    for (int v = 0; v < 4; v++) { plan_op(p, 0, "cmp", 6, (long)s, (long)d, (long)v, (long)rng_below(r, 5), 0L, 1L); plan_op(p, 0, "cmp", 6, (long)d, (long)s, (long)v, (long)rng_below(r, 5), 0L, 1L); }
                    plan_op(p, 0, "del", 1, (long)d);
                }
            } else if (rng_chance(r, 1, 6)) plan_op(p, 0, "cmp", 5, (long)s, (long)pick_live(r), 0L, 0L, 2L);      /* comp(): the object-level comparison */
            else if (rng_chance(r, 1, 2)) plan_op(p, 0, "cmp", 4, (long)s, (long)(rng_chance(r, 1, 10) ? -1 : pick_live(r)), (long)rng_below(r, 4), nn);
            else if (rng_chance(r, 1, 2)) { o = plan_op(p, 0, "cmp_ptr", 6, (long)s, (long)rng_below(r, 5000), (long)rng_below(r, 4), (long)rng_below(r, 5), (long)(1 + rng_below(r, 7)), 1L); op_str(o, "x", 1); }   /* argument derived from the text */
            else { o = plan_op(p, 0, "cmp_ptr", 4, (long)s, 0L, (long)rng_below(r, 4), nn); if (!rng_chance(r, 1, 10)) { n = gen_text(r, buf, 40, 0); op_str(o, buf, n); } }
        } else if (k < 94) { static const int bases[] = { 0, 8, 10, 16, 2, 36 }; plan_op(p, 0, "to_num", 2, (long)s, (long)bases[rng_below(r, 6)]); }
        else if (k < 95) plan_op(p, 0, "to_float", 1, (long)s);
        else if (k < 98) { int d = pick_free(r); if (d >= 0) { plan_op(p, 0, "dup", 2, (long)s, (long)d); gexists[d] = 1; glen[d] = glen[s]; gdone[d] = 0; } }
        else plan_op(p, 0, rng_chance(r, 1, 2) ? "show" : "type", 1, (long)s);
    }
}

const engine_t strsim_engine = { "objsim-str", "C01", gen, exec };
