/* simtask: cooperative tasks on ucontext + plan-driven scheduler + simulated clock */
#define _GNU_SOURCE
#include "sim.h"
#include "simtask.h"
#include <ucontext.h>
#include <stdlib.h>
#include <string.h>

#define STACK_SZ (512 * 1024)
typedef struct {
    ucontext_t ctx;
    char *stack;
    int state;                      /* 0 unused, 1 runnable, 2 blocked, 3 done */
    int (*ready)(void *); void *ready_arg;
    int64_t wake_us;                /* -1 none */
    op_t *cur_op; int cur_op_index; uint64_t op_steps;
    void (*body)(int, void *); void *arg;
} task_t;

static task_t tasks[TASK_MAX];
static int ntasks, current = -1, active;
static ucontext_t main_ctx;
static const int *sched; static int nsched, sched_pos, rr;
static int deadlocked;
uint64_t task_switches, task_sched_points;

#ifdef SIM_ASAN
void __sanitizer_start_switch_fiber(void **fake, const void *bottom, size_t size);
void __sanitizer_finish_switch_fiber(void *fake, const void **bottom_old, size_t *size_old);
static const void *main_bottom; static size_t main_size;
#endif

int task_current(void) { return active && current >= 0 ? current : 0; }
int task_active(void) { return active; }
int task_deadlocked(void) { return deadlocked; }

static void save_cur(void)
{
    if (current >= 0) { tasks[current].cur_op = R.cur_op; tasks[current].cur_op_index = R.cur_op_index; tasks[current].op_steps = R.op_steps; }
}
static void load_cur(void)
{
    if (current >= 0) { R.cur_op = tasks[current].cur_op; R.cur_op_index = tasks[current].cur_op_index; R.op_steps = tasks[current].op_steps; }
}

static void switch_to_main(void)
{
    int me = current;
    save_cur();
#ifdef SIM_ASAN
    void *fake = NULL;
    __sanitizer_start_switch_fiber(tasks[me].state == 3 ? NULL : &fake, main_bottom, main_size);
#endif
    swapcontext(&tasks[me].ctx, &main_ctx);
#ifdef SIM_ASAN
    __sanitizer_finish_switch_fiber(fake, &main_bottom, &main_size);
#endif
}

static void trampoline(void)
{
#ifdef SIM_ASAN
    __sanitizer_finish_switch_fiber(NULL, &main_bottom, &main_size);
#endif
    int me = current;
    tasks[me].body(me, tasks[me].arg);
    tasks[me].state = 3;
    switch_to_main();
    abort();
}

static int is_runnable(int i)
{
    if (tasks[i].state == 1) return 1;
    if (tasks[i].state == 2) {
        if (tasks[i].ready && tasks[i].ready(tasks[i].ready_arg)) return 1;
        if (tasks[i].wake_us >= 0 && R.clock_us >= tasks[i].wake_us) return 1;
    }
    return 0;
}

/* the scheduler: runs on the main context */
int task_run_all(int n, void (*body)(int, void *), void *arg, const int *sv, int nsv)
{
    ntasks = n; sched = sv; nsched = nsv; sched_pos = 0; rr = 0; deadlocked = 0; active = 1;
    for (int i = 0; i < n; i++) {
        task_t *t = &tasks[i];
        if (!t->stack) t->stack = malloc(STACK_SZ);
        getcontext(&t->ctx);
        t->ctx.uc_stack.ss_sp = t->stack;
        t->ctx.uc_stack.ss_size = STACK_SZ;
        t->ctx.uc_link = NULL;
        makecontext(&t->ctx, trampoline, 0);
        t->state = 1; t->ready = NULL; t->wake_us = -1; t->cur_op = NULL; t->cur_op_index = -1; t->op_steps = 0;
        t->body = body; t->arg = arg;
    }
    for (;;) {
        int runnable[TASK_MAX], nr = 0, alive = 0, pick;
        for (int i = 0; i < n; i++) {
            if (tasks[i].state != 3 && tasks[i].state != 0) alive++;
            if (is_runnable(i)) runnable[nr++] = i;
        }
        if (!alive) break;
        if (!nr) {
            /* nothing runnable: jump the clock to the earliest timer, else deadlock */
            int64_t best = -1;
            for (int i = 0; i < n; i++) if (tasks[i].state == 2 && tasks[i].wake_us >= 0 && (best < 0 || tasks[i].wake_us < best)) best = tasks[i].wake_us;
            if (best < 0) { deadlocked = 1; break; }
            R.clock_us = best;
            continue;
        }
        task_sched_points++;
        if (sched_pos < nsched) pick = runnable[(unsigned)sched[sched_pos++] % (unsigned)nr];
        else pick = runnable[(unsigned)(rr++) % (unsigned)nr];
        if (tasks[pick].state == 2) { tasks[pick].state = 1; tasks[pick].ready = NULL; tasks[pick].wake_us = -1; }
        if (pick != current) task_switches++;
        current = pick;
        load_cur();
        tr_printf("sched t%d", pick);
#ifdef SIM_ASAN
        void *fake = NULL;
        __sanitizer_start_switch_fiber(&fake, tasks[pick].stack, STACK_SZ);
#endif
        swapcontext(&main_ctx, &tasks[pick].ctx);
#ifdef SIM_ASAN
        __sanitizer_finish_switch_fiber(fake, NULL, NULL);
#endif
    }
    current = -1;
    active = 0;
    R.cur_op = NULL;
    return deadlocked ? -1 : 0;
}

void task_yield(void)
{
    if (!active || current < 0) return;
    switch_to_main();
    load_cur();
}

void task_block(int (*ready)(void *), void *arg, int64_t timeout_us)
{
    if (!active || current < 0) {
        /* single-task engine: a call that would block forever is a plan error */
        if (ready && ready(arg)) return;
        if (timeout_us >= 0) { R.clock_us += timeout_us; return; }
        sim_skip("would-block-without-tasks");
    }
    tasks[current].state = 2;
    tasks[current].ready = ready;
    tasks[current].ready_arg = arg;
    tasks[current].wake_us = timeout_us >= 0 ? R.clock_us + timeout_us : -1;
    switch_to_main();
    load_cur();
}

void task_sleep_us(int64_t us)
{
    if (!active || current < 0) { R.clock_us += us; return; }
    task_block(NULL, NULL, us);
}
