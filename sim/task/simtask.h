#ifndef SIMTASK_H
#define SIMTASK_H
#include <stdint.h>
#define TASK_MAX 6
int  task_run_all(int n, void (*body)(int task, void *arg), void *arg, const int *sched, int nsched); /* -1 = deadlock (BLOCKED) */
void task_yield(void);
void task_block(int (*ready)(void *), void *arg, int64_t timeout_us);  /* timeout <0: none */
void task_sleep_us(int64_t us);
int  task_current(void);
int  task_active(void);
int  task_deadlocked(void);
extern uint64_t task_switches, task_sched_points;
#endif
