/*
 * Copyright (C) 1997-2013, Michael Jennings <mej@eterm.org>
 *
 * Permission is hereby granted, free of charge, to any person obtaining a copy
 * of this software and associated documentation files (the "Software"), to
 * deal in the Software without restriction, including without limitation the
 * rights to use, copy, modify, merge, publish, distribute, sublicense, and/or
 * sell copies of the Software, and to permit persons to whom the Software is
 * furnished to do so, subject to the following conditions:
 *
 * The above copyright notice and this permission notice shall be included in
 * all copies of the Software, its documentation and marketing & publicity
 * materials, and acknowledgment shall be given in the documentation, materials
 * and software packages that this Software was used.
 *
 * THE SOFTWARE IS PROVIDED "AS IS", WITHOUT WARRANTY OF ANY KIND, EXPRESS OR
 * IMPLIED, INCLUDING BUT NOT LIMITED TO THE WARRANTIES OF MERCHANTABILITY,
 * FITNESS FOR A PARTICULAR PURPOSE AND NONINFRINGEMENT. IN NO EVENT SHALL
 * THE AUTHORS BE LIABLE FOR ANY CLAIM, DAMAGES OR OTHER LIABILITY, WHETHER
 * IN AN ACTION OF CONTRACT, TORT OR OTHERWISE, ARISING FROM, OUT OF OR IN
 * CONNECTION WITH THE SOFTWARE OR THE USE OR OTHER DEALINGS IN THE SOFTWARE.
 */

/**
 * @file types.h
 * LibAST Portable Data Types
 *
 * This file contains a collection of well-defined data types and the
 * tools for manipulating them.
 *
 * @author Michael Jennings <mej@eterm.org>
 * $Revision: 1.8 $
 * $Date: 2003/06/17 00:44:08 $
 */

#ifndef _LIBAST_TYPES_H_
#define _LIBAST_TYPES_H_


/**
 * @defgroup DOXGRP_TYPES LibAST Portable Data Types
 *
 * A collection of well-defined data types and the tools for
 * manipulating them.
 *
 * As any C programmer who cares about portability knows, dealing with
 * different types on different platforms can be a problem.  On some
 * platforms, int is 16-bit and long is 32-bit; on others, both int
 * and long are 32-bit and there is no long long; others have long
 * long as a 64-bit integer; and then there are the native 64-bit
 * platforms where long can also be 64-bit.  Not to mention the
 * presence/absence of boolean types/defines, signed vs. unsigned
 * char, and so forth.
 *
 * LibAST solves this problem by defining data types for specific
 * integer sizes that are guaranteed to be defined on any system with
 * LibAST.  Also, the basic data types are given their own new data
 * types which make signedness vs. unsignedness specifically stated,
 * preventing bad assumptions.
 *
 * Also included are macros for building LibAST type names from their
 * basenames, allocating LibAST objects, typecasting, generating
 * type-specific NULL comparisons, stringizing NULL values, taking the
 * size of a LibAST object type, and more.
 *
 * There are a few potential gotchas here, so please read the
 * following documentation carefully for each part you wish to use.
 */

/*@{*/
/**
 * @name Type Name Composition Macros
 * ---
 *
 * These macros convert basenames like "obj" into actual typenames
 * like "spif_obj_t."  This is primarily intended for use by other
 * macros and in places where the basename of the type should be
 * emphasized.
 *
 * @note LibAST's use of the term "const type" does @em NOT match the
 * traditional C definition of the term @c const.  When you declare a
 * variable of a type like @c spif_obj_t or @c SPIF_TYPE(obj), you are
 * actually defining a pointer variable which will point to an object
 * of that type.  Why a pointer?  Because they're the closest thing C
 * has to references.  However, in places where the actual structure
 * is needed as opposed to to a pointer (like when using sizeof()),
 * the @c CONST version of the macro should be used instead.
 *
 * @ingroup DOXGRP_TYPES
 */

/**
 * Create a complete type name from its basename.
 *
 * This macro converts a basename (such as "obj" or "charptr" or
 * "uint8") into a namespace-safe full type name.
 *
 * @param type The type basename.
 * @return     The full type name.
 *
 * @see @link DOXGRP_TYPES Portable Data Types @endlink
 */
#define SPIF_TYPE(type)                  spif_ ## type ## _t

/**
 * Create a complete const type name from its basename.
 *
 * This macro converts a basename (such as "obj" or "charptr" or
 * "uint8") into a namespace-safe const type name.
 *
 * @param type The type basename.
 * @return     The full const type name.
 *
 * @see @link DOXGRP_TYPES Portable Data Types @endlink
 */
#define SPIF_CONST_TYPE(type)            spif_const_ ## type ## _t

/**
 * Obtain the size of a type from its basename.
 *
 * This macro returns the size of the given type basename (such as
 * "obj" or "str").  This is only used for objects and other
 * structures whose types are actually struct pointers.
 *
 * @param type The type basename.
 * @return     The size of objects/structures of that type.
 *
 * @see @link DOXGRP_TYPES Portable Data Types @endlink
 */
#define SPIF_SIZEOF_TYPE(type)           (sizeof(SPIF_CONST_TYPE(type)))

/**
 * Define a type and its corresponding const type.
 *
 * This macro creates a typedef which maps the const type @a t to the
 * type specified by @a u and a typedef which maps the type @a t to a
 * pointer to its const type.  Again, this is used for structures.
 *
 * @param t The type basename.
 * @param u The actual type it's being mapped to.
 *
 * @see @link DOXGRP_TYPES Portable Data Types @endlink
 */
#define SPIF_DECL_TYPE(t, u)           typedef u SPIF_CONST_TYPE(t); typedef SPIF_CONST_TYPE(t) * SPIF_TYPE(t)
/*@}*/

/*@{*/
/**
 * @name Object-Specific Macros
 * ---
 *
 * These macros are intended for use specifically with objects.
 *
 * @see @link DOXGRP_OBJ LibAST Object Infrastructure @endlink
 * @ingroup DOXGRP_TYPES
 */

/**
 * Allocate an object (or other structured type) by its basename.
 *
 * This macro is used primarily in object constructors.  It allocates
 * and returns the specified type.
 *
 * @param type The type basename.
 * @return     An allocated object of the specified type.
 *
 * @see @link DOXGRP_TYPES Portable Data Types @endlink
 */
#define SPIF_ALLOC(type)                 (spif_ ## type ## _t) MALLOC(SPIF_SIZEOF_TYPE(type))

/**
 * Deallocate an object (or other structured type).
 *
 * This macro is used primarily in object destructors.  It frees the
 * memory associated with the specified object and invalidates it.
 *
 * @param obj The object to be freed.
 *
 * @see @link DOXGRP_TYPES Portable Data Types @endlink
 */
#define SPIF_DEALLOC(obj)                FREE(obj)

/**
 * Builds the classname variable for a particular base type.
 *
 * This macro converts a basename into the classname for that type.
 * It is primarily used in initialization of class objects.
 *
 * @param type The type basename.
 * @return     A string representing the classname for that type.
 *
 * @see @link DOXGRP_TYPES Portable Data Types @endlink
 */
#define SPIF_DECL_CLASSNAME(type)        (spif_charptr_t) "!spif_" #type "_t!"
/*@}*/

/*@{*/
/**
 * @name Typecast Macros
 * ---
 *
 * These macros provide typecasting by basename for LibAST types.
 * Cast macros are also provided for native C types to provide
 * consistency of casting method.
 *
 * @ingroup DOXGRP_TYPES
 */

/*@{*/
/**
 * @name NULL Handling Macros
 * ---
 *
 * These macros handle typecasting the NULL pointer to a specific
 * basename/type and printing out values which are set to NULL of a
 * specific basename/type.
 *
 * @ingroup DOXGRP_TYPES
 */

/**
 * Returns a string representing a NULL value of the specified base
 * type.
 *
 * This macro returns a string which shows the NULL value typecast to
 * the specified type.  This is a convenience macro used primarily by
 * the "show" method of various objects.
 *
 * @param type The type basename.
 * @return     A string representation of a NULL object of the
 *             specified type.
 *
 * @see @link DOXGRP_TYPES Portable Data Types @endlink
 */
#define SPIF_NULLSTR_TYPE(type)          "{ ((spif_" #type "_t) NULL) }"

/**
 * Returns a string representing a NULL value of the specified native
 * C type.
 *
 * This macro returns a string which shows the NULL value typecast to
 * the specified type.  This is a convenience macro used primarily by
 * the "show" method of various objects.
 *
 * @param type The type basename.
 * @return     A string representation of a NULL value of the
 *             specified C type.
 *
 * @see @link DOXGRP_TYPES Portable Data Types @endlink
 */
#define SPIF_NULLSTR_TYPE_C(type)         "{ ((" #type ") NULL) }"

/**
 * Returns a string representing a NULL value of a pointer to the
 * specified base type.
 *
 * This macro returns a string which shows the NULL value typecast to
 * a pointer to the specified type.  This is a convenience macro used
 * primarily by the "show" method of various objects.
 *
 * @param type The type basename.
 * @return     A string representation of a NULL pointer to an object
 *             of the specified type.
 *
 * @see @link DOXGRP_TYPES Portable Data Types @endlink
 */
#define SPIF_NULLSTR_TYPE_PTR(type)      "{ ((spif_" #type "_t *) NULL) }"

/**
 * Returns whether or not a generic pointer is NULL.
 *
 * This macro returns whether or not a generic pointer is NULL.
 *
 * @param p The pointer to test.
 * @return  #TRUE if NULL, #FALSE otherwise.
 *
 * @see @link DOXGRP_TYPES Portable Data Types @endlink, 
 */
#define SPIF_PTR_ISNULL(p)                (((spif_ptr_t) (p) == (spif_ptr_t) NULL) ? (TRUE) : (FALSE))

/**
 * Convenience macro for typecasting to spif_charptr_t.
 *
 * This macro typecasts a value to a spif_charptr_t.
 *
 * @see @link DOXGRP_TYPES Portable Data Types @endlink, spif_charptr_t
 */
#define SPIF_CHARPTR(var)    ((spif_charptr_t) (var))
/*@}*/

/*@{*/
/**
 * @name Sized Integer Data Types
 * ---
 *
 * These type definitions provide integer types which are guaranteed
 * portable, guaranteed to be of a specific size, and guaranteed to be
 * signed or unsigned, according to the name of each type.
 *
 * @note Platforms not supporting an integer type of a given size
 * default to @c long
 *
 * @note The definitions shown here in the documentation correspond to
 * the platform on which the docs were generated and do not
 * necessarily reflect the actual mappings on your platform.
 *
 * @ingroup DOXGRP_TYPES
 */

/**
 * An 8-bit signed integer.
 *
 * An 8-bit signed integer.
 *
 * @see @link DOXGRP_TYPES Portable Data Types @endlink
 */
typedef signed   char  spif_int8_t;

/**
 * An 8-bit unsigned integer.
 *
 * An 8-bit unsigned integer.
 *
 * @see @link DOXGRP_TYPES Portable Data Types @endlink
 */
typedef unsigned char  spif_uint8_t;

/**
 * A 16-bit signed integer.
 *
 * A 16-bit signed integer.
 *
 * @see @link DOXGRP_TYPES Portable Data Types @endlink
 */
typedef signed   short spif_int16_t;

/**
 * A 16-bit unsigned integer.
 *
 * A 16-bit unsigned integer.
 *
 * @see @link DOXGRP_TYPES Portable Data Types @endlink
 */
typedef unsigned short spif_uint16_t;

/**
 * A 32-bit signed integer.
 *
 * A 32-bit signed integer.
 *
 * @see @link DOXGRP_TYPES Portable Data Types @endlink
 */
typedef signed   int spif_int32_t;

/**
 * A 32-bit unsigned integer.
 *
 * A 32-bit unsigned integer.
 *
 * @see @link DOXGRP_TYPES Portable Data Types @endlink
 */
typedef unsigned int spif_uint32_t;

/**
 * A 64-bit signed integer.
 *
 * A 64-bit signed integer.
 *
 * @see @link DOXGRP_TYPES Portable Data Types @endlink
 */
typedef signed   long spif_int64_t;

/**
 * A 64-bit unsigned integer.
 *
 * A 64-bit unsigned integer.
 *
 * @see @link DOXGRP_TYPES Portable Data Types @endlink
 */
typedef unsigned long spif_uint64_t;
/*@}*/

/*@{*/
/**
 * @name Portable C-Mapped Data Types
 * ---
 *
 * These type definitions provide versions of the native C types which
 * are specifically signed or unsigned.  Also included are an
 * explicitly-signed char pointer type, a generic pointer type, and a
 * generic function pointer type.
 *
 * @ingroup DOXGRP_TYPES
 */

/**
 * A signed char.
 *
 * A signed char.
 *
 * @see @link DOXGRP_TYPES Portable Data Types @endlink
 */
typedef signed char spif_char_t;

/**
 * A signed short.
 *
 * A signed short.
 *
 * @see @link DOXGRP_TYPES Portable Data Types @endlink
 */
typedef signed short spif_short_t;

/**
 * A signed int.
 *
 * A signed int.
 *
 * @see @link DOXGRP_TYPES Portable Data Types @endlink
 */
typedef signed int spif_int_t;

/**
 * A signed long.
 *
 * A signed long.
 *
 * @see @link DOXGRP_TYPES Portable Data Types @endlink
 */
typedef signed long spif_long_t;

/**
 * An unsigned char.
 *
 * An unsigned char.
 *
 * @see @link DOXGRP_TYPES Portable Data Types @endlink
 */
typedef unsigned char spif_uchar_t;

/**
 * An unsigned short.
 *
 * An unsigned short.
 *
 * @see @link DOXGRP_TYPES Portable Data Types @endlink
 */
typedef unsigned short spif_ushort_t;

/**
 * An unsigned int.
 *
 * An unsigned int.
 *
 * @see @link DOXGRP_TYPES Portable Data Types @endlink
 */
typedef unsigned int spif_uint_t;

/**
 * An unsigned long.
 *
 * An unsigned long.
 *
 * @see @link DOXGRP_TYPES Portable Data Types @endlink
 */
typedef unsigned long spif_ulong_t;

/**
 * A pointer to char.
 *
 * A pointer to char.
 *
 * @see @link DOXGRP_TYPES Portable Data Types @endlink
 */
typedef char *spif_charptr_t;

/**
 * A pointer to a byte of data.
 *
 * A pointer to a byte of data.
 *
 * @see @link DOXGRP_TYPES Portable Data Types @endlink
 */
typedef spif_uint8_t *spif_byteptr_t;

/**
 * A generic, untyped pointer.
 *
 * A generic, untyped pointer.
 *
 * @see @link DOXGRP_TYPES Portable Data Types @endlink
 */
typedef void *spif_ptr_t;

/**
 * A generic function pointer.
 *
 * A generic function pointer.
 *
 * @see @link DOXGRP_TYPES Portable Data Types @endlink
 */
typedef void * (*spif_func_t)();

/**
 * A class name.
 *
 * This typedef abstracts the actual type of a classname variable.  At
 * this point I can't imagine it needing to be anything else, but one
 * never knows....
 *
 * @see @link DOXGRP_TYPES Portable Data Types @endlink
 */
typedef spif_charptr_t spif_classname_t;
/*@}*/

/*@{*/
/**
 * @name Portable Socket Types
 * ---
 *
 * These types provide portability and name-mapping for the values
 * and types used in socket code.  These are used by the LibAST socket
 * object and should not need to be used in end-user code.
 *
 * @bug FIXME:  These mappings are currently hard-coded.
 *
 * @ingroup DOXGRP_TYPES
 */

/**
 * A generic socket address.
 *
 * @internal
 * This type references a generic socket address structure.  It is
 * used for typecasting the protocol-based pointers (see below) to a
 * generic type suitable for use as a parameter to socket functions.
 *
 * @see @link DOXGRP_TYPES Portable Data Types @endlink
 */
SPIF_DECL_TYPE(sockaddr, struct sockaddr);

/**
 * A socket address for the IPv4 protocol family.
 *
 * @internal
 * This type references an IPv4 socket address structure.  It is used
 * to store IP addressing information for a given socket.
 *
 * @see @link DOXGRP_TYPES Portable Data Types @endlink
 */
SPIF_DECL_TYPE(ipsockaddr, struct sockaddr_in);

/**
 * A socket address for the UNIX protocol family.
 *
 * @internal
 * This type references a UNIX socket address structure.  It is used
 * to store addressing information for a given UNIX socket.
 *
 * @see @link DOXGRP_TYPES Portable Data Types @endlink
 */
SPIF_DECL_TYPE(unixsockaddr, struct sockaddr_un);

/**
 * An IPv4 address.
 *
 * @internal
 * This type references an IPv4 address in native host format.
 *
 * @see @link DOXGRP_TYPES Portable Data Types @endlink
 */
SPIF_DECL_TYPE(ipaddr, struct in_addr);

/**
 * Host information.
 *
 * @internal
 * This type references host information in native host format.
 *
 * @see @link DOXGRP_TYPES Portable Data Types @endlink
 */
SPIF_DECL_TYPE(hostinfo, struct hostent);

/**
 * Protocol information.
 *
 * @internal
 * This type references protocol information in native host format.
 *
 * @see @link DOXGRP_TYPES Portable Data Types @endlink
 */
SPIF_DECL_TYPE(protoinfo, struct protoent);

/**
 * Service information.
 *
 * @internal
 * This type references service information in native host format.
 *
 * @see @link DOXGRP_TYPES Portable Data Types @endlink
 */
SPIF_DECL_TYPE(servinfo, struct servent);

/**
 * The file descriptor for a socket.
 *
 * This type encapsulates the actual type of the socket file
 * descriptor.
 *
 * @see @link DOXGRP_TYPES Portable Data Types @endlink
 */
typedef int spif_sockfd_t;

/**
 * The protocol family for a socket.
 *
 * This type encapsulates the actual representation of the protocol
 * family.
 *
 * @see @link DOXGRP_TYPES Portable Data Types @endlink
 */
typedef int spif_sockfamily_t;

/**
 * The type of a socket.
 *
 * This type encapsulates the actual representation of the socket
 * type.
 *
 * @see @link DOXGRP_TYPES Portable Data Types @endlink
 */
typedef int spif_socktype_t;

/**
 * A socket protocol.
 *
 * This type encapsulates the actual representation of a socket
 * protocol.
 *
 * @see @link DOXGRP_TYPES Portable Data Types @endlink
 */
typedef int spif_sockproto_t;

/**
 * A socket port.
 *
 * This type encapsulates the actual representation of a socket's
 * port.
 *
 * @see @link DOXGRP_TYPES Portable Data Types @endlink
 */
typedef spif_uint16_t spif_sockport_t;

/**
 * The length of a socket address structure.
 *
 * This type encapsulates the actual representation of the size of a
 * socket address structure.
 *
 * @see @link DOXGRP_TYPES Portable Data Types @endlink
 */
typedef socklen_t spif_sockaddr_len_t;
/*@}*/

/*@{*/
/**
 * @name Portable Enumerated Data Types
 * ---
 *
 * These typedefs and macros provide portable, consistent
 * implementations of arbitrary comparison functionality and boolean
 * variables.
 *
 * @ingroup DOXGRP_TYPES
 */

/**
 * An enumerated type for comparisons.
 *
 * The defacto standard for the return value of a function or
 * operation which compares two things comes from the return value of
 * the @c strcmp() family of functions:  An integer less than, equal
 * to, or greater than zero representing that the first value is less
 * than, equal to, or greater than (respectively) the second value.
 * This type makes such comparisons more readable and provides
 * specific, defined values for each case.  Macros are provided to
 * improve readability and simplify conversion from other comparison
 * functions.
 *
 * @see @link DOXGRP_TYPES Portable Data Types @endlink, SPIF_CMP_FROM_INT(), SPIF_CMP_IS_LESS(),
 *      SPIF_CMP_IS_EQUAL(), SPIF_CMP_IS_GREATER()
 */
typedef enum {
  SPIF_CMP_LESS = -1,
  SPIF_CMP_EQUAL = 0,
  SPIF_CMP_GREATER = 1
} spif_cmp_t;

/**
 * Convert a traditional integer comparison result to a spif_cmp_t
 * value.
 *
 * This convenience macro accepts an integer value less than, equal
 * to, or greater than zero (as traditionally supplied by comparison
 * functions) and converts that value to SPIF_CMP_LESS,
 * SPIF_CMP_EQUAL, or SPIF_CMP_GREATER, respectively.
 *
 * @note This macro evaluates its parameter twice, so beware of side
 * effects.
 *
 * @param i A traditional integer comparison value.
 * @return  The corresponding spif_cmp_t value.
 *
 * @see @link DOXGRP_TYPES Portable Data Types @endlink, spif_cmp_t
 */
#define SPIF_CMP_FROM_INT(i)      (((int) (i) < 0) ? (SPIF_CMP_LESS) : (((int) (i) > 0) ? (SPIF_CMP_GREATER) : (SPIF_CMP_EQUAL)))

/**
 * Check if a comparison value is SPIF_CMP_LESS.
 *
 * This convenience macro determines if a given comparison expression
 * or value evaluates to SPIF_CMP_LESS.  The @a cmp expression is only
 * evaluated once, so this macro can safely be used on comparison
 * expressions like SPIF_CMP_FROM_INT().
 *
 * @param cmp Comparison expression or value of type spif_cmp_t.
 * @return    True if the result is SPIF_CMP_LESS, false otherwise.
 *
 * @see @link DOXGRP_TYPES Portable Data Types @endlink, spif_cmp_t, SPIF_CMP_FROM_INT()
 */
#define SPIF_CMP_IS_LESS(cmp)     ((cmp) == SPIF_CMP_LESS)

/**
 * Check if a comparison value is SPIF_CMP_EQUAL.
 *
 * This convenience macro determines if a given comparison expression
 * or value evaluates to SPIF_CMP_EQUAL.  The @a cmp expression is
 * only evaluated once, so this macro can safely be used on comparison
 * expressions like SPIF_CMP_FROM_INT().
 *
 * @param cmp Comparison expression or value of type spif_cmp_t.
 * @return    True if the result is SPIF_CMP_EQUAL, false otherwise.
 *
 * @see @link DOXGRP_TYPES Portable Data Types @endlink, spif_cmp_t, SPIF_CMP_FROM_INT()
 */
#define SPIF_CMP_IS_EQUAL(cmp)    ((cmp) == SPIF_CMP_EQUAL)

/**
 * Check if a comparison value is SPIF_CMP_GREATER.
 *
 * This convenience macro determines if a given comparison expression
 * or value evaluates to SPIF_CMP_GREATER.  The @a cmp expression is
 * only evaluated once, so this macro can safely be used on comparison
 * expressions like SPIF_CMP_FROM_INT().
 *
 * @param cmp Comparison expression or value of type spif_cmp_t.
 * @return    True if the result is SPIF_CMP_GREATER, false otherwise.
 *
 * @see @link DOXGRP_TYPES Portable Data Types @endlink, spif_cmp_t, SPIF_CMP_FROM_INT()
 */
#define SPIF_CMP_IS_GREATER(cmp)  ((cmp) == SPIF_CMP_GREATER)

/**
 * Convenience macro for comparing possibly NULL values.
 *
 * This macro exists because I got tired of typing the same thing over
 * and over again to handle comparisons of two pointers, either of
 * which may be NULL.
 *
 * @param p1  The first pointer.
 * @param p2  The second pointer.
 * @return    
 *
 * @see @link DOXGRP_STRINGS String Utility Routines @endlink, SPIF_PTR_ISNULL()
 */
#define SPIF_COMP_CHECK_NULL(p1, p2) do { \
                                         if (SPIF_PTR_ISNULL((p1)) && SPIF_PTR_ISNULL((p2))) { \
                                             return SPIF_CMP_EQUAL; \
                                         } else if (SPIF_PTR_ISNULL((p1))) { \
                                             return SPIF_CMP_LESS; \
                                         } else if (SPIF_PTR_ISNULL((p2))) { \
                                             return SPIF_CMP_GREATER; \
                                         } \
                                     } while (0)

#undef false
#undef False
#undef FALSE
#undef true
#undef True
#undef TRUE

/**
 * An enumerated type for boolean values.
 *
 * Unlike C++, C does not have a native boolean type.  Having one,
 * while strictly not necessary, tends to make for more readable
 * code.  So LibAST defines a boolean type and maps the most common
 * values into it (i.e., TRUE, True, and true along with FALSE, False,
 * and false).
 *
 * @note Because "false" and "true" are C++ reserved words, compiling
 * LibAST with a C++ compiler will disable these values as members of
 * the spif_bool_t data type.  For this and other reasons (namely
 * readability), use of "TRUE" and "FALSE" is preferred.
 *
 * @see @link DOXGRP_TYPES Portable Data Types @endlink
 */
typedef enum {
#ifndef __cplusplus
  false = 0,
#endif
  False = 0,
  FALSE = 0,
#ifndef __cplusplus
  true = 1,
#endif
  True = 1,
  TRUE = 1
} spif_bool_t;
/*@}*/

#endif /* _LIBAST_TYPES_H_ */
