/* include/libast/sysdefs.h.  Generated from sysdefs.h.in by configure.  */
/*
 * Copyright (C) 1997-2013, Michael Jennings <mej@eterm.org>
 *
 * Permission is hereby granted, free of charge, to any person obtaining a copy
 * of this software and associated documentation files (the "Software"), to
 * deal in the Software without restriction, including without limitation the
 * rights to use, copy, modify, merge, publish, distribute, sublicense, and/or
 * sell copies of the Software, and to permit persons to whom the Software is
 * furnished to do so, subject to the following conditions:
 *
 * The above copyright notice and this permission notice shall be included in
 * all copies of the Software, its documentation and marketing & publicity
 * materials, and acknowledgment shall be given in the documentation, materials
 * and software packages that this Software was used.
 *
 * THE SOFTWARE IS PROVIDED "AS IS", WITHOUT WARRANTY OF ANY KIND, EXPRESS OR
 * IMPLIED, INCLUDING BUT NOT LIMITED TO THE WARRANTIES OF MERCHANTABILITY,
 * FITNESS FOR A PARTICULAR PURPOSE AND NONINFRINGEMENT. IN NO EVENT SHALL
 * THE AUTHORS BE LIABLE FOR ANY CLAIM, DAMAGES OR OTHER LIABILITY, WHETHER
 * IN AN ACTION OF CONTRACT, TORT OR OTHERWISE, ARISING FROM, OUT OF OR IN
 * CONNECTION WITH THE SOFTWARE OR THE USE OR OTHER DEALINGS IN THE SOFTWARE.
 */

/**
 * @file sysdefs.h
 * LibAST autotools fill-in header file.
 *
 * This file makes sure that all autoconf/automake-related definitions
 * LibAST headers need are defined one way or the other.
 *
 * @author Michael Jennings <mej@eterm.org>
 */

#ifndef _LIBAST_SYSDEFS_H_
#define _LIBAST_SYSDEFS_H_

/* This GNU goop has to go before the system headers */
#ifdef __GNUC__
# ifndef __USE_GNU
#  define __USE_GNU
# endif
# ifndef _GNU_SOURCE
#  define _GNU_SOURCE
# endif
# ifndef _BSD_SOURCE
#  define _BSD_SOURCE
# endif
# ifndef _XOPEN_SOURCE
/* FIXME -- Do some systems still need this? */
/* #  define _XOPEN_SOURCE */
# endif
#endif

/* The LibAST version string. */
#ifndef LIBAST_VERSION
#  define LIBAST_VERSION "0.8.1"
#endif

/* Support for the X Window system. */
#ifndef LIBAST_X11_SUPPORT
#  define LIBAST_X11_SUPPORT 1
#endif

/* Support for the Imlib2 image library. */
#ifndef LIBAST_IMLIB2_SUPPORT
#  define LIBAST_IMLIB2_SUPPORT 0
#endif

/* Support for MMX instructions. */
#ifndef LIBAST_MMX_SUPPORT
#  define LIBAST_MMX_SUPPORT 1
#endif

/* Regexp's based on Perl's PCRE, or... */
#ifndef LIBAST_REGEXP_SUPPORT_PCRE
#  define LIBAST_REGEXP_SUPPORT_PCRE 1
#endif

/* ...standard POSIX regexp support, or... */
#ifndef LIBAST_REGEXP_SUPPORT_POSIX
#  define LIBAST_REGEXP_SUPPORT_POSIX 0
#endif

/* ...BSD-style regexp support. */
#ifndef LIBAST_REGEXP_SUPPORT_BSD
#  define LIBAST_REGEXP_SUPPORT_BSD 0
#endif

/* Support for backquote execution in config files. */
#ifndef ALLOW_BACKQUOTE_EXEC
#  define ALLOW_BACKQUOTE_EXEC 1
#endif

/* App-definable; requests 0.5 API compatibility (pollutes namespace). */
#ifndef LIBAST_COMPAT_05_API
#  define LIBAST_COMPAT_05_API 0
#endif

/* A bunch of security checks. */
#ifndef HAVE_RLIMIT_MEMLOCK
#  define HAVE_RLIMIT_MEMLOCK 0
#endif
#ifndef HAVE_RLIMIT_NPROC
#  define HAVE_RLIMIT_NPROC 0
#endif
#ifndef HAVE_SYMLINK_OPEN_ERRNO_BUG
#  define HAVE_SYMLINK_OPEN_ERRNO_BUG 0
#endif
#ifndef HAVE_SYMLINK_OPEN_SECURITY_HOLE
#  define HAVE_SYMLINK_OPEN_SECURITY_HOLE 0
#endif
#ifndef HAVE_SNPRINTF_BUG
#  define HAVE_SNPRINTF_BUG 0
#endif
#ifndef HAVE_VSNPRINTF_BUG
#  define HAVE_VSNPRINTF_BUG 0
#endif

/* Sizes of basic variables. */
#ifndef SIZEOF_CHAR
#  define SIZEOF_CHAR 1
#endif
#ifndef SIZEOF_INT
#  define SIZEOF_INT 4
#endif
#ifndef SIZEOF_LONG
#  define SIZEOF_LONG 8
#endif
#ifndef SIZEOF_LONG_LONG
#  define SIZEOF_LONG_LONG 8
#endif
#ifndef SIZEOF_SHORT
#  define SIZEOF_SHORT 2
#endif
#ifndef WORDS_BIGENDIAN
#  define WORDS_BIGENDIAN 0
#endif

/* Substitutes for some non-standard functions. */
#ifndef HAVE_MEMMEM
#  define HAVE_MEMMEM 1
#endif
#ifndef HAVE_MEMMOVE
#  define HAVE_MEMMOVE 1
#endif
#ifndef HAVE_PUTENV
#  define HAVE_PUTENV 1
#endif
#ifndef HAVE_STRCASECHR
#  define HAVE_STRCASECHR 0
#endif
#ifndef HAVE_STRCASEPBRK
#  define HAVE_STRCASEPBRK 0
#endif
#ifndef HAVE_STRCASESTR
#  define HAVE_STRCASESTR 1
#endif
#ifndef HAVE_STRNLEN
#  define HAVE_STRNLEN 1
#endif
#ifndef HAVE_STRREV
#  define HAVE_STRREV 0
#endif
#ifndef HAVE_STRSEP
#  define HAVE_STRSEP 1
#endif
#ifndef HAVE_USLEEP
#  define HAVE_USLEEP 1
#endif
#ifndef HAVE_SNPRINTF
#  define HAVE_SNPRINTF 1
#endif
#ifndef HAVE_VSNPRINTF
#  define HAVE_VSNPRINTF 1
#endif

/* Header checks used in libast.h */
#ifndef TIME_WITH_SYS_TIME
#  define TIME_WITH_SYS_TIME 1
#endif
#ifndef HAVE_MALLOC_H
#  define HAVE_MALLOC_H 1
#endif
#ifndef HAVE_PCRE_H
#  define HAVE_PCRE_H 1
#endif
#ifndef HAVE_PCRE_PCRE_H
#  define HAVE_PCRE_PCRE_H 0
#endif
#ifndef HAVE_REGEX_H
#  define HAVE_REGEX_H 0
#endif
#ifndef WITH_DMALLOC
#  define WITH_DMALLOC 0
#endif
#ifndef MALLOC_CALL_COUNT
#  define MALLOC_CALL_COUNT 0
#endif


#endif /* _LIBAST_SYSDEFS_H_ */
