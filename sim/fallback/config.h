/* config.h.  Generated from config.h.in by configure.  */
/* config.h.in.  Generated from configure.ac by autoheader.  */


#pragma once


/* Define if building universal (internal helper macro) */
/* #undef AC_APPLE_UNIVERSAL_BUILD */

/* Define for backquote execution. */
#define ALLOW_BACKQUOTE_EXEC 1

/* Authors */
#define AUTHORS "Michael Jennings (mej@eterm.org and mej@lanl.gov)"

/* Define to 1 if using 'alloca.c'. */
/* #undef C_ALLOCA */

/* Specify level of debugging to compile in. */
#define DEBUG 4

/* Define to 1 if you have 'alloca', as a function or macro. */
#define HAVE_ALLOCA 1

/* Define to 1 if <alloca.h> works. */
#define HAVE_ALLOCA_H 1

/* Define to 1 if you have the <bsd/signal.h> header file. */
/* #undef HAVE_BSD_SIGNAL_H */

/* Define to 1 if you have the <dlfcn.h> header file. */
#define HAVE_DLFCN_H 1

/* Define to 1 if you have the <errno.h> header file. */
#define HAVE_ERRNO_H 1

/* Define to 1 if you have the <fcntl.h> header file. */
#define HAVE_FCNTL_H 1

/* Define to 1 if you have the <inttypes.h> header file. */
#define HAVE_INTTYPES_H 1

/* Define to 1 if you have a functional curl library. */
#define HAVE_LIBCURL 1

/* Define to 1 if you have the <malloc.h> header file. */
#define HAVE_MALLOC_H 1

/* Define to 1 if you have the `memmem' function. */
#define HAVE_MEMMEM 1

/* Define to 1 if you have the `memmove' function. */
#define HAVE_MEMMOVE 1

/* Define to 1 if you have the <pcre.h> header file. */
#define HAVE_PCRE_H 1

/* Define to 1 if you have the <pcre/pcre.h> header file. */
/* #undef HAVE_PCRE_PCRE_H */

/* Define if you have POSIX threads libraries and header files. */
#define HAVE_PTHREADS 1

/* Define to 1 if you have the `putenv' function. */
#define HAVE_PUTENV 1

/* Define to 1 if you have the <regex.h> header file. */
/* #undef HAVE_REGEX_H */

/* Defined if the RLIMIT_MEMLOCK resource limit works. */
/* #undef HAVE_RLIMIT_MEMLOCK */

/* Defined if the RLIMIT_NPROC resource limit works. */
/* #undef HAVE_RLIMIT_NPROC */

/* Define to 1 if you have the `snprintf' function. */
#define HAVE_SNPRINTF 1

/* Defined if libc snprintf is buggy. */
/* #undef HAVE_SNPRINTF_BUG */

/* Define to 1 if you have the <stdarg.h> header file. */
#define HAVE_STDARG_H 1

/* Define to 1 if you have the <stdint.h> header file. */
#define HAVE_STDINT_H 1

/* Define to 1 if you have the <stdio.h> header file. */
#define HAVE_STDIO_H 1

/* Define to 1 if you have the <stdlib.h> header file. */
#define HAVE_STDLIB_H 1

/* Define to 1 if you have the `strcasechr' function. */
/* #undef HAVE_STRCASECHR */

/* Define to 1 if you have the `strcasepbrk' function. */
/* #undef HAVE_STRCASEPBRK */

/* Define to 1 if you have the `strcasestr' function. */
#define HAVE_STRCASESTR 1

/* Define to 1 if you have the <strings.h> header file. */
#define HAVE_STRINGS_H 1

/* Define to 1 if you have the <string.h> header file. */
#define HAVE_STRING_H 1

/* Define to 1 if you have the `strnlen' function. */
#define HAVE_STRNLEN 1

/* Define to 1 if you have the `strrev' function. */
/* #undef HAVE_STRREV */

/* Define to 1 if you have the `strsep' function. */
#define HAVE_STRSEP 1

/* Defined if symlink open() is buggy. */
/* #undef HAVE_SYMLINK_OPEN_ERRNO_BUG */

/* Defined if symlink open() is a security risk. */
/* #undef HAVE_SYMLINK_OPEN_SECURITY_HOLE */

/* Define to 1 if you have the <sys/byteorder.h> header file. */
/* #undef HAVE_SYS_BYTEORDER_H */

/* Define to 1 if you have the <sys/ioctl.h> header file. */
#define HAVE_SYS_IOCTL_H 1

/* Define to 1 if you have the <sys/select.h> header file. */
#define HAVE_SYS_SELECT_H 1

/* Define to 1 if you have the <sys/sockio.h> header file. */
/* #undef HAVE_SYS_SOCKIO_H */

/* Define to 1 if you have the <sys/stat.h> header file. */
#define HAVE_SYS_STAT_H 1

/* Define to 1 if you have the <sys/time.h> header file. */
#define HAVE_SYS_TIME_H 1

/* Define to 1 if you have the <sys/types.h> header file. */
#define HAVE_SYS_TYPES_H 1

/* Define to 1 if you have <sys/wait.h> that is POSIX.1 compatible. */
#define HAVE_SYS_WAIT_H 1

/* Define to 1 if you have the <termios.h> header file. */
#define HAVE_TERMIOS_H 1

/* Define to 1 if you have the <unistd.h> header file. */
#define HAVE_UNISTD_H 1

/* Define to 1 if you have the `usleep' function. */
#define HAVE_USLEEP 1

/* Define to 1 if you have the <utmpx.h> header file. */
#define HAVE_UTMPX_H 1

/* Define to 1 if you have the `vsnprintf' function. */
#define HAVE_VSNPRINTF 1

/* Defined if libc vsnprintf is buggy. */
/* #undef HAVE_VSNPRINTF_BUG */

/* Define for Imlib2 support. */
/* #undef LIBAST_IMLIB2_SUPPORT */

/* Define for MMX support. */
#define LIBAST_MMX_SUPPORT 1

/* Build LibAST with BSD-style regexp support. */
/* #undef LIBAST_REGEXP_SUPPORT_BSD */

/* Build LibAST with PCRE support. */
#define LIBAST_REGEXP_SUPPORT_PCRE 1

/* Build LibAST with POSIX-style regexp support. */
/* #undef LIBAST_REGEXP_SUPPORT_POSIX */

/* Defined if compiler supports compound statement expressions. */
#define LIBAST_SUPPORT_MACRO_CSE 1

/* Version */
#define LIBAST_VERSION "0.8.1"

/* Define for X11 support. */
#define LIBAST_X11_SUPPORT 1

/* Defined if libcurl supports AsynchDNS */
#define LIBCURL_FEATURE_ASYNCHDNS 1

/* Defined if libcurl supports IDN */
#define LIBCURL_FEATURE_IDN 1

/* Defined if libcurl supports IPv6 */
#define LIBCURL_FEATURE_IPV6 1

/* Defined if libcurl supports KRB4 */
/* #undef LIBCURL_FEATURE_KRB4 */

/* Defined if libcurl supports libz */
#define LIBCURL_FEATURE_LIBZ 1

/* Defined if libcurl supports NTLM */
#define LIBCURL_FEATURE_NTLM 1

/* Defined if libcurl supports SSL */
#define LIBCURL_FEATURE_SSL 1

/* Defined if libcurl supports SSPI */
/* #undef LIBCURL_FEATURE_SSPI */

/* Defined if libcurl supports DICT */
#define LIBCURL_PROTOCOL_DICT 1

/* Defined if libcurl supports FILE */
#define LIBCURL_PROTOCOL_FILE 1

/* Defined if libcurl supports FTP */
#define LIBCURL_PROTOCOL_FTP 1

/* Defined if libcurl supports FTPS */
#define LIBCURL_PROTOCOL_FTPS 1

/* Defined if libcurl supports HTTP */
#define LIBCURL_PROTOCOL_HTTP 1

/* Defined if libcurl supports HTTPS */
#define LIBCURL_PROTOCOL_HTTPS 1

/* Defined if libcurl supports LDAP */
/* #undef LIBCURL_PROTOCOL_LDAP */

/* Defined if libcurl supports TELNET */
#define LIBCURL_PROTOCOL_TELNET 1

/* Defined if libcurl supports TFTP */
#define LIBCURL_PROTOCOL_TFTP 1

/* Define to the sub-directory where libtool stores uninstalled libraries. */
#define LT_OBJDIR ".libs/"

/* Name of package */
#define PACKAGE "libast"

/* Define to the address where bug reports for this package should be sent. */
#define PACKAGE_BUGREPORT ""

/* Define to the full name of this package. */
#define PACKAGE_NAME "LibAST"

/* Define to the full name and version of this package. */
#define PACKAGE_STRING "LibAST 0.8.1"

/* Define to the one symbol short name of this package. */
#define PACKAGE_TARNAME "libast"

/* Define to the home page for this package. */
#define PACKAGE_URL ""

/* Define to the version of this package. */
#define PACKAGE_VERSION "0.8.1"

/* Define to necessary symbol if this constant uses a non-standard name on
   your system. */
/* #undef PTHREAD_CREATE_JOINABLE */

/* Define as the return type of signal handlers (`int' or `void'). */
#define RETSIGTYPE void

/* The size of `char', as computed by sizeof. */
#define SIZEOF_CHAR 1

/* The size of `int', as computed by sizeof. */
#define SIZEOF_INT 4

/* The size of `long', as computed by sizeof. */
#define SIZEOF_LONG 8

/* The size of `long long', as computed by sizeof. */
#define SIZEOF_LONG_LONG 8

/* The size of `short', as computed by sizeof. */
#define SIZEOF_SHORT 2

/* If using the C implementation of alloca, define if you know the
   direction of stack growth for your system; otherwise it will be
   automatically deduced at runtime.
	STACK_DIRECTION > 0 => grows toward higher addresses
	STACK_DIRECTION < 0 => grows toward lower addresses
	STACK_DIRECTION = 0 => direction of growth unknown */
/* #undef STACK_DIRECTION */

/* Define to 1 if all of the C90 standard headers exist (not just the ones
   required in a freestanding environment). This macro is provided for
   backward compatibility; new code need not use it. */
#define STDC_HEADERS 1

/* Defined if strict ISO C99 (9899:1999) is requested or required. */
#define STRICT_ISO_C99 1

/* Define to 1 if you can safely include both <sys/time.h> and <time.h>. This
   macro is obsolete. */
#define TIME_WITH_SYS_TIME 1

/* Version number of package */
#define VERSION "0.8.1"

/* Define if using the dmalloc debugging malloc package */
/* #undef WITH_DMALLOC */

/* Define WORDS_BIGENDIAN to 1 if your processor stores words with the most
   significant byte first (like Motorola and SPARC, unlike Intel). */
#if defined AC_APPLE_UNIVERSAL_BUILD
# if defined __BIG_ENDIAN__
#  define WORDS_BIGENDIAN 1
# endif
#else
# ifndef WORDS_BIGENDIAN
/* #  undef WORDS_BIGENDIAN */
# endif
#endif

/* Define to 1 if the X Window System is missing or not being used. */
/* #undef X_DISPLAY_MISSING */

/* Define to empty if `const' does not conform to ANSI C. */
/* #undef const */

/* Define curl_free() as free() if our version of curl lacks curl_free. */
/* #undef curl_free */

/* Define to `int' if <sys/types.h> doesn't define. */
/* #undef gid_t */

/* Define to `__inline__' or `__inline' if that's what the C compiler
   calls it, or to nothing if 'inline' is not supported under any name.  */
#ifndef __cplusplus
/* #undef inline */
#endif

/* Define to `int' if <sys/types.h> does not define. */
/* #undef mode_t */

/* Define to `long' if <sys/types.h> does not define. */
/* #undef off_t */

/* Define as a signed integer type capable of holding a process identifier. */
/* #undef pid_t */

/* Define to `unsigned int' if <sys/types.h> does not define. */
/* #undef size_t */

/* Define to `int' if <sys/types.h> doesn't define. */
/* #undef uid_t */



