/* compiled like a library object (same config.h / DEBUG level, libc references renamed to sim_*):
 * lets the harness exercise the MALLOC/CALLOC/REALLOC/FREE/STRDUP *macros* exactly as library code sees them */
#include <libast_internal.h>

const char *shim_file(void) { return __FILE__; }
void *shim_malloc(size_t n, unsigned long *line) { *line = __LINE__; return MALLOC(n); }
void *shim_calloc(size_t n, unsigned long *line) { *line = __LINE__; return CALLOC(char, n); }
void *shim_realloc(void *p, size_t n, unsigned long *line) { *line = __LINE__; return REALLOC(p, n); }
char *shim_strdup(const char *s, unsigned long *line) { *line = __LINE__; return (char *) STRDUP(s); }
void *shim_free(void *p) { FREE(p); return p; }      /* FREE() nulls the pointer it frees: returns NULL */
int shim_debug_compiled(void) { return DEBUG; }
