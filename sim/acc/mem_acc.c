/* accessor TU: the repo's mem.c compiled unmodified, plus a read-only accessor for the private table */
#include REPO_MEM_C

const spifmem_memrec_t *simacc_malloc_rec(void) { return &malloc_rec; }
void simacc_mem_forget(void) { malloc_rec.cnt = 0; malloc_rec.ptrs = NULL; }
