/* accessor TU: the repo's conf.c compiled unmodified, plus read-only accessors for its private state.
 * Replaces conf.o in the link (no hook in /repo). */
#include REPO_CONF_C

int simacc_ctx_depth(void)      { return ctx_state_idx; }
int simacc_ctx_capacity(void)   { return ctx_state_cnt; }
int simacc_ctx_count(void)      { return ctx_idx; }
int simacc_ctx_table_cap(void)  { return ctx_cnt; }
int simacc_fstate_capacity(void){ return fstate_cnt; }
int simacc_fstate_depth(void)   { return fstate_idx; }
int simacc_builtin_count(void)  { return builtin_idx; }
int simacc_builtin_cap(void)    { return builtin_cnt; }
const void *simacc_vars_head(void) { return spifconf_vars; }
const void *simacc_builtins(void)  { return builtins; }
const void *simacc_ctx_state(void) { return ctx_state; }
const void *simacc_context(void)   { return context; }
/* run isolation: forget everything (memory belongs to the simulated arena, which is reset separately) */
void simacc_conf_forget(void)
{
    context = NULL; ctx_state = NULL; builtins = NULL; fstate = NULL; spifconf_vars = NULL;
    ctx_cnt = ctx_idx = ctx_state_idx = ctx_state_cnt = fstate_cnt = builtin_cnt = builtin_idx = 0;
    fstate_idx = 0;
}
