#!/usr/bin/env python3
# regenerates MANIFEST.json from bin/props.py + the tables below (kept in one place so it stays valid)
import json, sys, os
sys.path.insert(0, os.path.join(os.path.dirname(os.path.abspath(__file__)), "bin"))
from props import PROPS
from manifest_texts import CLAIMED, NOT_APPLICABLE

m = {
 "version": 1,
 "setup_cmd": "make -C sim fallback",
 "hooks": {
  "guard": "LIBAST_VERIF",
  "enable": "no source hooks: libast sources are compiled unmodified from /repo/src; seams are link-time (objcopy --redefine-syms sim/redefine.syms renames libc entry points to sim_*), accessor translation units sim/acc/*.c that #include /repo/src/conf.c and mem.c, fopencookie streams and a harness-defined element class",
  "baseline_off_cmd": "make -C /repo && make -C /repo/test test",
  "source_commits": [],
  "add_only": True
 },
 "engines": [
  {"name": "objsim", "path": "sim/work/objsim*.c", "serves_properties": ["C01","C02","C03","C04","C05","C06","C07"], "kind_free_text": "object histories under the simulated allocator and simulated streams/descriptors, reference models"},
  {"name": "netsim", "path": "sim/work/netsim.c", "serves_properties": ["C19"], "kind_free_text": "cooperative tasks over a simulated AF_UNIX socket layer with per-call fault scripts and seeded schedules"},
  {"name": "confsim", "path": "sim/work/confsim*.c", "serves_properties": ["C09","C10","C11"], "kind_free_text": "config parser over a simulated file tree, environment, process spawning and garbage memory"},
  {"name": "envsim", "path": "sim/work/envsim*.c", "serves_properties": ["C14","C15","C17"], "kind_free_text": "name-service outcomes, allocator behaviour under the tracker, stack garbage"},
 ],
 "checks": [],
 "not_applicable": [],
 "notes": "Technique family: deterministic simulation with fault injection. See DESIGN.md. bin/check <ID> quick|thorough; bin/check --replay <plan>."
}
for pid in sorted(CLAIMED):
    if pid not in PROPS:
        continue
    c = CLAIMED[pid]
    m["checks"].append({
        "property_id": pid,
        "quick_cmd": "bin/check %s quick" % pid,
        "thorough_cmd": "bin/check %s thorough" % pid,
        "evidence_file": "evidence/%s.json" % pid,
        "replay_cmd_template": "bin/check --replay {path}",
        "engine": c["engine"],
        "level_claimed": {"category": "exploration", "text": c["text"], "design_ref": c["design_ref"]},
        "level_note": c["note"],
        "technique": c["technique"],
    })
for pid in sorted(NOT_APPLICABLE):
    m["not_applicable"].append({"property_id": pid, "reason": NOT_APPLICABLE[pid]})
for pid in sorted(CLAIMED):
    if pid not in PROPS:
        m["not_applicable"].append({"property_id": pid, "reason": "check not built yet in this round (planned: deterministic simulation, see DESIGN.md section for " + pid + ")"})
m["not_applicable"].sort(key=lambda e: e["property_id"])
json.dump(m, open(os.path.join(os.path.dirname(os.path.abspath(__file__)), "MANIFEST.json"), "w"), indent=1)
print("checks:", [c["property_id"] for c in m["checks"]], "n/a:", [c["property_id"] for c in m["not_applicable"]])
