# per-property configuration of the checks (variant, budgets, expected probes, evidence texts)
REAL_LIB = ["/repo/src/*.c compiled unmodified (array, builtin_hashes, conf, debug, dlinked_list, file, linked_list, mbuff, mem, "
            "module, msgs, obj, objpair, options, pthreads, regexp, socket, str, strings, snprintf, tok, url, ustr)"]
STUBS = ["simalloc (malloc/calloc/realloc/free/strdup and the libc calls that allocate for the caller: strndup/getline/getdelim/asprintf/vasprintf/reallocarray)", "simfd (read/write/close/dup/lseek/fstat/fcntl/select/socket/bind/listen/connect/accept; stdio streams over a simulated descriptor)",
         "simfs (fopen/fdopen/access/stat/chdir/getcwd/opendir/readdir/mkstemp/umask/fchmod/remove/system)",
         "name service, time, getpid, rand, exit", "simtask scheduler + simulated clock"]
COMMON_ASSUME = ["libc string/stdio routines below the renamed entry points are trusted",
                 "a clean batch is evidence over the sampled seeds, not a proof",
                 "allocation failure (NULL from malloc) is not injected: no property quantifies over it"]

def P(variants, quick_s, thorough_s, rule, probes=None, probes_thorough=None, assumptions=None):
    d = {"variants": variants, "quick_s": quick_s, "thorough_s": thorough_s, "rule": rule,
         "probes": probes or [], "assumptions": COMMON_ASSUME + (assumptions or []),
         "components": {"real": REAL_LIB, "stub": STUBS}}
    if probes_thorough is not None:
        d["probes_thorough"] = probes_thorough
    return d

PROPS = {
    "C10": P(["asan", "asanz", "asanu"], 30, 900,
             "plans = 1..12 expansions per run sharing one variable store; value strings assembled from ordinary text, $NAME/${NAME}/$(NAME) over set/unset/empty variables, backslash escapes, "
             "tildes, single- and double-quoted sections, %put/%get (with defaults, nested up to depth 3), %version/%appname/%random/%exec/backquote, and don't-care constructs (unknown %word, lone $, "
             "unterminated ${ and %get(, trailing backslash), %dirscan over a simulated directory whose listing is modelled exactly (one run in ten makes the listing 20474..20486 or 41000 bytes long with 100..255-character names), "
             "plus values padded to 20300..20470 characters so replacements reach the 20 kB limit; HOME set/unset/empty, 7..12 built-ins; "
             "the argument is an exact CONFIG_BUFF-byte simulated block; oracle = reference expander written from the stated rules (value checked unless a don't-care construct occurs), NUL-termination and length, "
             "and a second execution of the whole plan under different heap and stack garbage that must give byte-identical results; Since rounds 10-12: the %name ) spelling and variable-deleting spellings (value don't-care), fdopen()/fchmod() refusals, built-ins registered between expansions. Since round 16: variable names that begin with or hold a byte above 0x7f next to plain ones. Since round 17: directory entries that stat() cannot follow; the read-back of a command's output fails at once or half way (value don't-care, garbage-independence checked). distinct = distinct trace hash; non-trivial = >= 3 ops",
             probes=["stat_failed_for_a_listed_name", "temporary_file_read_back_failed", "value_checked", "value_dont_care", "dollar_mid_line", "backslash_at_end", "unterminated_brace", "nested_call_depth3", "result_hits_limit", "tilde_inside_quotes", "big_directory", "dirscan_listing_modelled", "dirscan_listing_over_limit", "cut_result_is_a_prefix",
                     "random_picked_another_word", "dirscan_no_directory"]),
    "C11": P(["asan", "asanz"], 30, 900,
             "plans = 1..4 init/register/parse/free cycles; files are arbitrary byte strings or metacharacter-rich config text (NULs, lines of 20470..20482 and 41000 bytes, missing final newline, "
             "300 unmatched begin lines, empty file, bad magic, %include/%put/%get/%random/%dirscan (one run in ten over a directory whose listing is 20474..20486 or 41000 bytes long)/$VAR/~ and, in a quarter of the runs, %exec/backquote/%preproc), 0..200 contexts, 7..13 built-ins, "
             "spifconf_find_file with file/dir/pathlist strings up to 40000 bytes, spiftool_temp_file under a libc that creates with 0600 or 0666&~umask, direct expansions up to the 20 kB limit; "
             "oracle = ASan/allocator verdict, step and CPU budgets, spawn census, temp-file mode/uniqueness census, allocator ledger at spifconf_free_subsystem, equal handler traces for repeated cycles; "
             "Since rounds 10-12: wrong-arity built-ins, the %name ) spelling, directives without argument, variables deleted from the middle of the list, fdopen()/fchmod() refusals per cycle, registrations between parses, more than 255 built-ins/contexts (must be refused). Since round 17: directory entries that stat() cannot follow; a temporary file whose read-back fails at once or half way. distinct = distinct trace hash; non-trivial = >= 3 ops",
             probes=["stat_failed_for_a_listed_name", "temporary_file_read_back_failed", "lifecycle_cycle_completed", "repeated_cycle_compared", "builtin_table_grew", "empty_file", "nul_in_file", "line_over_limit", "line_near_limit", "contexts_crossed_160",
                     "spawn_by_directive", "vars_defined", "second_cycle_uses_vars", "find_file_found", "path_component_over_limits", "temp_file_created", "big_directory"]),
    "C09": P(["plain", "plainz"], 30, 900,
             "plans = a simulated file tree (root + include files, include chains up to 200 deep, files without magic, missing files, empty files, directories and files that open but cannot be read) over the line grammar "
             "comment | blank | begin NAME | end [junk] | %include F | text, nesting depth biased to 9..11, 19..21, 39..41, 79..81, 159..161, 200, 255, 0..200 registered contexts bound to 8 recording handlers, "
             "optional override of the null context, fopen failures and seeded read chunking from the parse op's fault script, parse with and without a search path; "
             "oracle = reference dispatcher producing the exact handler-call trace incl. state tokens, stack balance and index<capacity through read-only accessors; "
             "Since rounds 10-12: the program may rename itself (libast_set_program_name) and the environment may change between two parses; up to 255 registered contexts with a preference for the last one in begin lines. Since round 17: a read of a config stream may fail once with EINTR (fault ETRANSIENT) and work again; the handler trace of such a parse is not judged (the statement does not quantify over failing reads), files closed and file stack restored are, and the run ends there. distinct = distinct trace hash; non-trivial = >= 3 ops",
             probes=["config_read_failed_once_inside_the_file", "file_taken_to_end_at_the_failed_read", "environment_changed_between_parses", "program_renamed", "line_delivered_with_open_expansion", "depth_crossed_20", "depth_crossed_40", "depth_crossed_80", "depth_crossed_160", "include_depth_crossed_10", "include_depth_crossed_20", "include_depth_crossed_40",
                     "include_depth_crossed_80", "include_depth_crossed_160", "unknown_context", "surplus_end", "eof_without_newline", "include_open_failed", "contexts_crossed_20",
                     "contexts_crossed_160", "unbalanced_input", "file_opened_but_unreadable", "empty_file",
                     "delivered_value_was_expanded", "root_found_through_search_path"]),
    "C14": P(["asan", "asanz", "asanu"], 30, 900,
             "plans = 1..20 URLs per run (4/5 from component tuples over small alphabets with each optional part present/absent -- three quarters of those as text, one quarter assembled through the setters, unparsed and parsed again; 1/5 arbitrary byte strings), "
             "one simulated name-service table per run (7 bits: tcp/udp/ip protocols, http/ftp/dns services, a service whose protocol is missing), two stack paints per URL; "
             "oracle = reference splitter + port rule + canonical unparse + parse(unparse) round trip + identical components under both paints + allocator ledger; "
             "Since rounds 11-12: the name-service table may change between two parses of a run; a service listed under two protocols with different ports (udp first, tcp second). distinct = distinct trace hash; non-trivial = >= 3 URLs",
             probes=["name_service_changed", "copy_outlives_original", "wellformed_url", "proto_is_protocol_name", "service_found_tcp", "service_found_udp_only", "service_proto_missing", "colon_in_password", "query_without_path", "assembled_url_roundtrip", "constructed_from_str_object", "service_with_five_digit_port"]),
    "C15": P(["plain5", "plain"], 30, 900,
             "plans = (a) 3..80 tracked malloc/calloc/realloc/strdup/free calls over 12 pointer slots (through spifmem_* and through the MALLOC/REALLOC/FREE macros as library code sees them), "
             "NULL/zero-size/unknown-pointer cases, untracked prefix at runtime level 4, simulated allocator underneath deciding moves and immediate address reuse; tracker table compared with a "
             "shadow live-set after every call; (b) on the DEBUG=5 build, object-API programs at runtime level 5 that must end with an empty table; the DEBUG=4 build runs the macro histories "
             "for allocation-semantics equality; distinct = distinct trace hash; non-trivial = >= 3 ops",
             probes=["realloc_moved", "address_reused_after_free", "remove_from_middle", "realloc_to_zero", "realloc_of_null", "unknown_pointer_free", "filename_truncated",
                     "via_macros", "object_program_on_tracking_build", "tracking_switched_on"]),
    "C17": P(["asan", "asanz", "asanu"], 30, 900,
             "plans = 1..20 comparisons per run: pairs of generated well-formed versions (N(.N)*[word[N]], words incl. snap/pre/alpha/beta/rc), near-identical pairs, and wild strings of "
             "letter/digit/punctuation runs with lengths biased to 1, 126..129, 200, 1000; arguments are exact-size simulated blocks; each comparison runs under two stack paints, after "
             "another call, in both argument orders and against itself; reference comparator on well-formed pairs where the statement defines the order; Since round 11: every comparison of a run is asked again at the end of the run in reverse order (same answer required), and one pair in four is derived from the previous call's strings (word cut, grown, or replaced by two different pre-release words). distinct = distinct trace hash; non-trivial = >= 3 comparisons",
             probes=["wellformed_pair", "prerelease_word_pair", "suffix_vs_bare", "run_longer_than_127", "zero_padded_component", "exhaustive_short_pair"]),
    "C05": P(["asan", "asanz"], 30, 900,
             "plans = seeded programs (4..30 ops) over a pool of 6 objects drawn from 16 kinds (str, ustr, mbuff, objpair, tok, url, regexp, list/vector/map x array/linked_list/dlinked_list; "
             "vobj or str elements) with make/mutate/query/dup/done+re-init/del; allocator policies incl. garbage fill, immediate address reuse and far-apart placement; "
             "after dup: distinct object, same class, type() equal, observer equal; after every op: no other object's observation changed (independence), and "
             "reflexive/antisymmetric/transitive/NULL-first comparison over all same-kind pairs of the pool; Since rounds 10-12: a second generation of mutators and queries (positions from the end, negative counts, the middle of lists, rarer regexp flags, a name service that knows the URL words), a list and its fresh copy read by position (the copy must hand out its own elements), and for array lists and vectors comp EQUAL exactly when the element sequences are the same. Since round 16: a container and its fresh copy are also compared element by element by which element each position holds a copy of (elements that compare equal are still told apart). distinct = distinct trace hash; non-trivial = >= 3 ops",
             probes=["copy_compared_element_by_element", "extended_mutator_2", "object_is_its_own_argument", "dup", "class_checked", "comp_pair", "comp_null_first", "comp_of_equal_values", "extended_mutator", "tok_quote_characters_changed", "stream_constructor_ok",
                     "empty_container", "list_with_holes", "pair_without_value", "tok_evaluated", "regexp_compiled", "done", "del"]),
    "C06": P(["asan", "asanz"], 30, 900,
             "plans = seeded programs (4..60 ops) over the whole object API (16 kinds as in C05): create, fill, query (everything handed out is deleted by the caller), "
             "copy, done + re-init, property setters, re-evaluation, early deletion; the simulated allocator is the ledger: live set after deleting every object == live set before, "
             "no double free / foreign free / use after free (ASan + allocator), element objects deleted exactly once; Since rounds 10-12: a second generation of mutators and queries (positions from the end, negative counts, the middle of lists, rarer regexp flags, a name service that knows the URL words), a list and its fresh copy read by position, and libc calls that allocate for the caller (getline, strndup, asprintf ...) inside the ledger. Since round 16: URL texts with components that are present but empty (a port of no digits behind a known service, an empty password, a user without host). distinct = distinct trace hash; non-trivial = >= 3 ops",
             probes=["extended_mutator_2", "object_is_its_own_argument", "set_with_own_value", "set_with_own_key", "extended_mutator", "map_list_into_given", "stream_constructor_gave_up", "property_set_to_null", "tok_tokens_handed_in",
                     "dup", "done", "del", "map_value_overwritten", "list_with_holes", "tok_reevaluated", "property_setter", "removed_element_deleted_by_caller",
                     "key_value_pair_list_deleted", "empty_container", "regexp_recompiled"]),
    "C02": P(["asan", "asanz"], 30, 900,
             "plans = seeded list histories (3..40 ops over 2 slots: append, prepend, insert_at over {-len-2..len+3}, remove, remove_at, get, index, find, contains, reverse, "
             "iterator beyond the end, dup, del; keys 0..5 so duplicates are common); the same plan runs on array, linked_list and dlinked_list; after every op every list is "
             "read back completely (structure walk, count, get(i) for i in [-len-1,len], fresh iterator, to_array) and compared with an ideal sequence with holes; "
             "since round 16 a remove that takes a later one of several equal elements is accepted only where the values that remain, in order, are those of the ideal sequence (from which the first equal element went), and one append in ten hands in an object the list already holds (there twice, removed twice, deleted once); "
             "distinct = distinct trace hash; non-trivial = >= 3 ops",
             probes=["same_object_in_list_twice", "iterator_copied", "elements_of_two_comparable_classes", "insert_at_hole_created", "insert_at_len", "insert_at_refused", "remove_at_refused", "removed_last", "reverse_empty", "iterator_one_past_end",
                     "probe_is_own_element", "iterator_abandoned_midway",
                     "list_dup", "dup_of_empty_container", "dup_of_container_with_hole"]),
    "C03": P(["plain", "plainz"], 30, 900,
             "plans = seeded map histories (3..40 ops over 2 slots: set, set via pair, remove, has_value, get_keys/values/pairs into NULL or an existing list, dup, del; "
             "key ranges 3 and 9 so overwrites and removals of min/max/only key are common; caller key/value objects mutated and deleted right after set); "
             "same plan on the three map classes; after every op: structure walk, count, iterator, get/has_key for every key of the universe; distinct = distinct trace hash; non-trivial = >= 3 ops",
             probes=["iterator_copied", "elements_of_two_comparable_classes", "overwrite_existing", "remove_min", "remove_max", "remove_only", "caller_key_mutated_after_set", "set_via_pair", "set_key_as_its_own_value", "get_list_into_existing", "dup_of_empty_container",
                     "set_own_value", "probe_is_own_element", "iterator_abandoned_midway", "get_list_into_linked_list", "get_list_into_empty_list"]),
    "C04": P(["plain", "plainz"], 30, 900,
             "plans = seeded vector histories (3..40 ops over 2 slots: insert, remove (also with the stored element itself as the probe), find, contains with present/absent/below-min/above-max probes, abandoned and exhausted iterators, dup, del; keys 0..7, one plan in eight prefilled with 30..100 elements over keys 0..47); after every step a sweep of find/contains over every key; "
             "same plan on the three vector classes; after every op: structure walk, sortedness, multiset equality by element identity, count, iterator, to_array; "
             "since round 16 one insertion in twelve hands in an object the vector already holds (held twice, removed twice, deleted once); "
             "distinct = distinct trace hash; non-trivial = >= 3 ops",
             probes=["same_object_inserted_twice", "one_occurrence_of_two_removed", "iterator_copied", "elements_of_two_comparable_classes", "plain_objects_gigabytes_apart", "insert_duplicate_of_max", "insert_duplicate_of_only_element", "insert_below_min", "probe_below_min", "probe_above_max", "single_element_vector", "dup_of_empty_container",
                     "probe_is_own_element", "iterator_abandoned_midway", "iterator_one_past_end"]),
    "C07": P(["asan", "asanz"], 30, 900,
             "plans = seeded histories (4..40 ops, pool of 4 mbuff objects, direct functions or class-table macros) from a random constructor "
             "(empty, ptr, buff, FILE* seekable/streaming at zero/non-zero position with seeded chunking, descriptor regular-file/streaming with short reads, EINTR, EIO), "
             "all 256 byte values incl. NUL, sizes 0..13000 around the 4096-byte chunk; every object compared with an ideal byte sequence after every step; "
             "Since rounds 10-12: FILE* sources may be stdio streams over a simulated descriptor (pipe or regular file) of which 0..4097 bytes have already been read; positions and counts reach INT_MAX, 2^32, LONG_MAX and LONG_MAX-len and their negatives. Since round 16: formatted results of power-of-two lengths 16..8192 and one or two off. Since round 17: vsnprintf() may fail at the first or second call of a sprintf. distinct = distinct trace hash; non-trivial = >= 3 ops",
             probes=["sprintf_refused_after_formatter_failure", "fp_over_descriptor", "fp_over_descriptor_partly_read", "self_as_argument", "argument_related_to_object", "null_pointer_with_a_length", "source_read_error",
                     "append_on_empty", "fp_seekable", "fp_streaming", "fp_seekable_nonzero_pos", "fd_regular_file", "fd_streaming", "fd_multi_chunk",
                     "stream_exactly_4096", "refused_op", "absent_byte_search", "cmp_different_lengths", "trim_all_whitespace", "done"]),
    "C01": P(["asan", "asanz"], 30, 900,
             "plans = seeded histories (4..40 ops, pool of 4 objects, str or ustr, direct functions or class-table macros) starting from a random constructor "
             "(empty, ptr, buff, num, FILE* with seeded chunking, descriptor with short reads/EINTR/EAGAIN/EIO), texts from empty to 16 KB around the 4096-byte chunk; "
             "every object is compared with an ideal character sequence after every step; Since rounds 10-12: FILE* sources may be stdio streams over a simulated descriptor (fileno works, stdio reads ahead); positions and counts reach INT_MAX, 2^32, LONG_MAX and LONG_MAX-len and their negatives. Since round 16: a stream read may fail once (EINTR) and work again, with further constructions from the same stream judged exactly; formatted results of power-of-two lengths 16..8192 and one or two off. Since round 17: vsnprintf() may fail at the first or second call of a sprintf (-1/ENOMEM after partial output). Since round 18: a stream read may answer EAGAIN after part of a line (single constructions; the object may hold any beginning of the line up to all of it). distinct = distinct trace hash (includes allocator digest); non-trivial = >= 3 ops",
             probes=["sprintf_refused_after_formatter_failure", "fp_read_failed_once", "fp_constructed_after_a_read_that_failed_once", "fp_over_descriptor", "self_as_argument", "argument_related_to_object", "counted_buffer_without_terminator", "fp_read_error",
                     "append_on_empty", "fp_line_crosses_4096", "fd_multi_chunk", "refused_op", "done", "query_not_found", "trim_all_whitespace",
                     "mutator_on_empty_state", "dup_of_empty_str"]),
    "C19": P(["plain", "plainz"], 30, 900,
             "plans = fault-script sweep (all scripts over {FULL,SHORT,EINTR}^<=3 on the first reads and {FULL,SHORT,EINTR,EAGAIN}^<=3 on the first writes x 8 payload sizes from 5 to 20000 bytes incl. exact multiples of the 4096-byte chunk) "
             "followed by seeded lifecycles of 1 server + 1..3 client tasks with per-call fault scripts (socket/bind/listen/connect/accept/read/write/close outcomes), listeners on taken addresses, open retries and seeded schedules; "
             "Since rounds 10-11: the sweep has three passes (A: scripts of length <= 3 with a receive queue that holds everything; B: the same with a 1 kB queue; C: all scripts of length 4), EINTR/EAGAIN faults may be bursts of 2..130 identical answers. distinct = distinct trace hash (every simulated call outcome and scheduling decision is hashed); non-trivial = plan has >= 3 operations",
             probes=["done_object_kept", "descriptors_numbered_from_zero", "fault_burst", "sweep_plan", "accept_ok", "send_true", "recv_over_4096", "dup_ok", "open_failed", "accept_failed", "run_ended_blocked", "run_completed",
                     "recv_ended_at_eof", "recv_ended_on_error", "send_partially_delivered", "natural_eagain_on_write"]),
    "T00": P(["asan"], 3, 10, "selftest: random allocator traffic; distinct = distinct trace hash among runs with >= 3 ops"),
}
