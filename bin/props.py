# per-property configuration of the checks (variant, budgets, expected probes, evidence texts)
REAL_LIB = ["/repo/src/*.c compiled unmodified (array, builtin_hashes, conf, debug, dlinked_list, file, linked_list, mbuff, mem, "
            "module, msgs, obj, objpair, options, pthreads, regexp, socket, str, strings, snprintf, tok, url, ustr)"]
STUBS = ["simalloc (malloc/calloc/realloc/free/strdup)", "simfd (read/write/close/dup/lseek/fcntl/select/socket/bind/listen/connect/accept)",
         "simfs (fopen/fdopen/access/stat/chdir/getcwd/opendir/readdir/mkstemp/umask/fchmod/remove/system)",
         "name service, time, getpid, rand, exit", "simtask scheduler + simulated clock"]
COMMON_ASSUME = ["libc string/stdio routines below the renamed entry points are trusted",
                 "a clean batch is evidence over the sampled seeds, not a proof",
                 "allocation failure (NULL from malloc) is not injected: no property quantifies over it"]

def P(variants, quick_s, thorough_s, rule, probes=None, probes_thorough=None, assumptions=None):
    d = {"variants": variants, "quick_s": quick_s, "thorough_s": thorough_s, "rule": rule,
         "probes": probes or [], "assumptions": COMMON_ASSUME + (assumptions or []),
         "components": {"real": REAL_LIB, "stub": STUBS}}
    if probes_thorough is not None:
        d["probes_thorough"] = probes_thorough
    return d

PROPS = {
    "T00": P(["asan"], 3, 10, "selftest: random allocator traffic; distinct = distinct trace hash among runs with >= 3 ops"),
}
