DST = "deterministic simulation with fault injection: seeded search over operation histories, fault scripts and schedules against an executable reference model; minimised replayable plans"
def C(engine, ref, text, note, technique=DST):
    return {"engine": engine, "design_ref": ref, "text": text, "note": note, "technique": technique}

TB = "Trusted: the simulator (sim/), the reference models in sim/work, gcc/ASan, libc routines below the renamed entry points. Sampling, not enumeration."
CLAIMED = {
 "C01": C("objsim", "DESIGN.md 3 C01", "Seeded histories of str/ustr operations from every constructor (incl. simulated FILE* and descriptor sources with short reads/EINTR) run against an ideal character-sequence model under a simulated allocator (exact-size blocks, always-move realloc, poison on free) with ASan; text, length, capacity and every query compared after every step.", TB),
 "C02": C("objsim", "DESIGN.md 3 C02", "The same seeded list history is executed on array, linked_list and dlinked_list under the simulated allocator/ASan and compared with an ideal sequence (with NULL holes) after every step, incl. iterators, link-structure walks and 3-way differential.", TB),
 "C03": C("objsim", "DESIGN.md 3 C03", "Seeded map histories on the three map classes against an ideal ordered dictionary, with ownership probes (caller key/value mutated and deleted after set) under the simulated allocator with scribble-on-free.", TB),
 "C04": C("objsim", "DESIGN.md 3 C04", "Seeded vector histories on the three vector classes against an ideal sorted multiset, 3-way differential, under the simulated allocator.", TB),
 "C05": C("objsim", "DESIGN.md 3 C05", "Objects of every value class reached by seeded histories are dup'ed, twins mutated/deleted in both orders under poison-on-free/garbage-fill/address-reuse allocator policies, and comp laws (reflexive, antisymmetric, transitive, NULL first) checked over the live pool.", TB),
 "C06": C("objsim", "DESIGN.md 3 C06", "Seeded programs over the whole object API with the simulated allocator as conservation ledger: live set before == after, no double free / use after free, element ownership counters.", TB),
 "C07": C("objsim", "DESIGN.md 3 C07", "Seeded histories of mbuff operations incl. seekable/streaming FILE* and descriptor sources with short reads, against an ideal byte-sequence model under the simulated allocator with ASan.", TB),
 "C09": C("confsim", "DESIGN.md 4 C09", "Seeded config trees (includes, nesting to 255, unbalanced blocks) served from a simulated file tree with chunked/failed reads; handler-call trace compared with a reference dispatcher; file/context stack balance checked through accessors.", TB),
 "C10": C("confsim", "DESIGN.md 4 C10", "Seeded value strings expanded under a simulated environment/var store/rand/system, compared with a reference expander; every plan re-executed under a second stack/heap garbage pattern and required to give identical results.", TB),
 "C11": C("confsim", "DESIGN.md 4 C11", "Arbitrary bytes as config files and path strings through the simulated file tree under ASan, spawn census, temp-file census, multi-cycle init/parse/free lifecycle with the allocator ledger.", TB),
 "C14": C("envsim", "DESIGN.md 4 C14", "URL parse/unparse against a reference splitter under every outcome of the simulated protocol/service lookups and two stack paints, ASan.", TB),
 "C15": C("envsim", "DESIGN.md 4 C15", "Seeded interleavings of tracked malloc/calloc/realloc/strdup/free with the simulated allocator underneath deciding moves and address reuse; tracker table compared with a shadow live-set after every call.", TB),
 "C17": C("envsim", "DESIGN.md 4 C17", "Version comparison under two stack paints and two call histories with exact-size argument blocks and ASan; determinism, antisymmetry, reflexivity, reference comparator on well-formed versions.", TB),
 "C19": C("netsim", "DESIGN.md 4 C19", "Server and client tasks over a fully simulated AF_UNIX socket layer; per-call fault scripts (short, EINTR, EAGAIN, hard errors) attached to operations, seeded schedules; byte-stream equality, descriptor census after every step, bounded liveness once faults stop. A bounded sweep of all fault scripts of length <= 3 runs first.", TB),
}
NOT_APPLICABLE = {
 "C08": "pure function of (option table, argv, two flag bits): no I/O, clock, allocator behaviour, schedule or second party for a simulator to own; input generation alone would be fuzzing, not deterministic simulation",
 "C12": "pure functions of one string and a delimiter set; nothing environmental to simulate or inject",
 "C13": "pure functions of (size, source, destination bytes); a redzone allocator around the buffers would be a fuzzing accessory, not a simulated environment",
 "C16": "finite matrix (entry point x NULL position x debug level) with deterministic outcomes; a generated unit-test table, no schedule, fault or history to search",
 "C18": "pure functions of (bytes, length, seed, alignment); no nondeterminism or fault for a simulator to control",
 "C20": "compile-time x run-time configuration matrix evaluated by building variants and reading stderr; no schedule, clock, I/O fault or interleaving involved",
}
