#!/usr/bin/env python3
"""Regenerates the four generated blocks of DESIGN.md (the fourth: the coverage table of section 15, from coverage/summary.json): the findings table of section 11 (from known_findings.json)
the seeded-change result table of section 12 (from seeded/*/meta.json + seeded/*/summary.txt)
and the table of property-preserving changes of section 14 (from benign/*/meta.json + benign/*/summary.txt)."""
import json, os, re, glob
V = os.path.dirname(os.path.dirname(os.path.abspath(__file__)))
doc = open(os.path.join(V, "DESIGN.md")).read()
kf = json.load(open(os.path.join(V, "known_findings.json")))["findings"]
rows = ["| property | fix commit | what failed | regression plan |", "|----------|-----------|-------------|-----------------|"]
for f in sorted(kf, key=lambda f: (f["property"], f["commit"], f["id"])):
    rows.append("| %s | `%s` | %s | `%s` |" % (f["property"], f["commit"], f["what"].replace("|", "\\|"), f["plan"]))
t11 = "\n".join(rows)
rows = ["| change | property | what was changed / what it needs to manifest | quick check says |", "|--------|----------|------------------|------------------|"]
for d in sorted(glob.glob(os.path.join(V, "seeded", "*"))):
    m = json.load(open(os.path.join(d, "meta.json")))
    summ = open(os.path.join(d, "summary.txt")).read().strip().replace("\n", " ") if os.path.exists(os.path.join(d, "summary.txt")) else ""
    cr = m.get("check_result", {}).get(m["property"], {})
    classes = sorted(set(cr.get("classes", [])))
    if m.get("in_scope") is False:
        res = "not caught -- **outside the property's quantifier** (see meta.json)"
    elif m.get("caught"):
        res = "caught: " + ", ".join("`%s`" % c for c in classes)
        if "MISSED" in m.get("history", ""):
            res = "**missed at first**, then " + res
    else:
        res = "**MISSED**"
    rows.append("| %s | %s | %s | %s |" % (m["name"], m["property"], summ.replace("|", "\\|"), res))
t12 = "\n".join(rows)
rows = ["| change | property | what was changed (the property still holds) | quick check says |", "|--------|----------|------------------|------------------|"]
for d in sorted(glob.glob(os.path.join(V, "benign", "*"))):
    m = json.load(open(os.path.join(d, "meta.json")))
    summ = open(os.path.join(d, "summary.txt")).read().strip().replace("\n", " ") if os.path.exists(os.path.join(d, "summary.txt")) else ""
    cr = m.get("check_result", {})
    res = "quiet" if m.get("quiet") else "**ALARM**: " + ", ".join("`%s`" % c for c in sorted(set(cr.get("classes", []))))
    if m.get("history"): res += " (" + m["history"] + ")"
    rows.append("| %s | %s | %s | %s |" % (m["name"], m["property"], summ.replace("|", "\\|"), res))
t14 = "\n".join(rows)
def put(doc, tag, body):
    a, b = "<!-- BEGIN %s -->" % tag, "<!-- END %s -->" % tag
    assert a in doc and b in doc, tag
    return doc[:doc.index(a) + len(a)] + "\n" + body + "\n" + doc[doc.index(b):]
cov = json.load(open(os.path.join(V, "coverage", "summary.json")))
rows = ["| property | source file | instrumented lines executed | functions never entered |", "|----------|-------------|-----------------------------|-------------------------|"]
for pid in sorted(cov):
    for b, v in sorted(cov[pid]["files"].items()):
        rows.append("| %s | `%s` | %d of %d | %d of %d |" % (pid, b, v["lines_executed"], v["lines_instrumented"], len(v["functions_never_entered"]), v["functions"]))
t15 = "\n".join(rows)
doc = put(doc, "COVERAGE", t15)
doc = put(doc, "FINDINGS", t11)
doc = put(doc, "SEEDED", t12)
doc = put(doc, "BENIGN", t14)
open(os.path.join(V, "DESIGN.md"), "w").write(doc)
print("findings:", len(kf), "fix commits:", len({f["commit"] for f in kf}), "seeded:", len(glob.glob(os.path.join(V, "seeded", "*"))), "benign:", len(glob.glob(os.path.join(V, "benign", "*"))))
