#!/usr/bin/env python3
"""tools/benign.py confirm <worktree> <PROP> <name>   store an independently written property-PRESERVING change under benign/<name>/
   tools/benign.py run [name ...]                   run the quick check of each stored change's property against it; the check must stay quiet
A change is kept only if its patch applies to /repo HEAD, the library builds, all 119 baseline tests still pass and its demonstration
(which checks the property's promises on the changed code, plain and under valgrind) passes with and without the change."""
import json, os, shutil, subprocess, sys, re, time
V = os.path.dirname(os.path.dirname(os.path.abspath(__file__)))
def sh(cmd, **kw): return subprocess.run(cmd, shell=True, stdout=subprocess.PIPE, stderr=subprocess.STDOUT, text=True, errors="replace", **kw)

def confirm(wt, prop, name):
    out = os.path.join(V, "benign", name)
    patch = sh("git -C %s diff -- src include" % wt).stdout
    if not patch.strip(): print("no source change in", wt); return 1
    os.makedirs(out, exist_ok=True)
    open(os.path.join(out, "patch.diff"), "w").write(patch)
    for f in ("demo.c", "run_demo.sh", "NOTES.md"):
        if os.path.exists(os.path.join(wt, f)): shutil.copy(os.path.join(wt, f), out)
    r = sh("REPO=%s %s/tools/baseline.sh" % (wt, V))
    tests_ok = "119/119" in r.stdout
    d1 = sh("cd %s && sh ./run_demo.sh" % wt, timeout=900)
    meta = {"property": prop, "name": name, "baseline_tests_pass_with_change": tests_ok, "demo_exit_with_change": d1.returncode,
            "confirmed": bool(tests_ok and d1.returncode == 0),
            "what_changes": open(os.path.join(wt, "NOTES.md")).read()[:1500] if os.path.exists(os.path.join(wt, "NOTES.md")) else "",
            "what_was_run": ["REPO=<worktree> tools/baseline.sh (119 stable tests)", "run_demo.sh with the patch applied (plain and under valgrind)", "REPO=<worktree> bin/check %s quick" % prop]}
    json.dump(meta, open(os.path.join(out, "meta.json"), "w"), indent=1)
    print(name, "tests_ok=%s demo_with=%d confirmed=%s" % (tests_ok, d1.returncode, meta["confirmed"]))
    return 0 if meta["confirmed"] else 1

def run(names):
    base = os.path.join(V, "benign")
    res = []
    for name in sorted(names or os.listdir(base)):
        d = os.path.join(base, name)
        if not os.path.exists(os.path.join(d, "meta.json")): continue
        meta = json.load(open(os.path.join(d, "meta.json")))
        wt = "/tmp/benign-run-" + name
        sh("git -C /repo worktree remove --force %s" % wt)
        sh("git -C /repo worktree add -f --detach %s HEAD -q" % wt)
        a = sh("git -C %s apply %s/patch.diff" % (wt, d))
        if a.returncode: print(name, "PATCH DOES NOT APPLY", a.stdout[:200]); sh("git -C /repo worktree remove --force %s" % wt); continue
        t0 = time.time()
        r = sh("REPO=%s %s/bin/check %s quick" % (wt, V, meta["property"]), env=dict(os.environ, VERIF_SECONDS=os.environ.get("VERIF_SECONDS", "30")))
        classes = re.findall(r"class=(\S+)", r.stdout)
        if r.returncode and "--keep" in sys.argv: open("/tmp/benign-out-%s.txt" % name, "w").write(r.stdout)
        sh("git -C /repo worktree remove --force %s" % wt)
        meta["check_result"] = {"exit": r.returncode, "classes": classes}
        meta["quiet"] = r.returncode == 0
        meta["check_wall_s"] = round(time.time() - t0, 1)
        json.dump(meta, open(os.path.join(d, "meta.json"), "w"), indent=1)
        print("%-28s %s %s" % (name, "QUIET" if meta["quiet"] else "ALARM", json.dumps(meta["check_result"])), flush=True)
        if r.returncode: print(r.stdout[-3000:])
        res.append(meta["quiet"])
    print("quiet on %d of %d" % (sum(res), len(res)))

names = [a for a in sys.argv[2:] if not a.startswith("--")]
if sys.argv[1] == "confirm": sys.exit(confirm(*names[:3]))
elif sys.argv[1] == "run": run(names)
