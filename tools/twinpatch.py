#!/usr/bin/env python3
"""apply the same textual replacement to /repo/src/str.c and its renamed twin /repo/src/ustr.c
usage: twinpatch.py <file with blocks '<<<<\nold\n====\nnew\n>>>>'> ; exits non-zero if a block does not apply"""
import sys,re
blocks=re.findall(r"<<<<\n(.*?)\n====\n(.*?)\n>>>>", open(sys.argv[1]).read(), re.S)
files=sys.argv[2:] or ["/repo/src/str.c","/repo/src/ustr.c"]
def tw(t): return t.replace("spif_stridx_t","@IDX@").replace("spif_str","spif_ustr").replace("SPIF_STR","SPIF_USTR").replace("@IDX@","spif_ustridx_t").replace("SPIF_USTRCLASS","SPIF_STRCLASS")
for f in files:
    s=open(f).read()
    for old,new in blocks:
        o,n=(tw(old),tw(new)) if "ustr" in f else (old,new)
        if s.count(o)!=1:
            print("block does not apply exactly once in",f,":\n",o[:200]); sys.exit(1)
        s=s.replace(o,n)
    open(f,"w").write(s)
print("applied",len(blocks),"block(s) to",files)
