#!/usr/bin/env python3
"""tools/seeded.py confirm <worktree> <PROP> <name>   verify an independently seeded breaking change and store it under seeded/<name>/
   tools/seeded.py run [name ...]                   run the quick check of each stored change's property against it (scratch worktree, REPO=...)
A change is kept only if: its patch applies to /repo HEAD, the library builds, all 119 baseline tests still pass,
and its demonstration fails with the change and passes without it."""
import json, os, shutil, subprocess, sys, re, time
V = os.path.dirname(os.path.dirname(os.path.abspath(__file__)))
def sh(cmd, **kw): return subprocess.run(cmd, shell=True, stdout=subprocess.PIPE, stderr=subprocess.STDOUT, text=True, errors="replace", **kw)

def confirm(wt, prop, name):
    out = os.path.join(V, "seeded", name)
    patch = sh("git -C %s diff -- src include" % wt).stdout
    if not patch.strip(): print("no source change in", wt); return 1
    os.makedirs(out, exist_ok=True)
    open(os.path.join(out, "patch.diff"), "w").write(patch)
    for f in ("demo.c", "run_demo.sh", "NOTES.md"):
        if os.path.exists(os.path.join(wt, f)): shutil.copy(os.path.join(wt, f), out)
    for f in os.listdir(wt):
        if f.startswith(("demo", "shim", "wrap")) and f.endswith((".c", ".h", ".sh")) and not os.path.exists(os.path.join(out, f)): shutil.copy(os.path.join(wt, f), out)
    # 1. baseline tests with the change
    r = sh("REPO=%s %s/tools/baseline.sh" % (wt, V))
    tests_ok = "119/119" in r.stdout
    # 2. demo with / without
    d1 = sh("cd %s && sh ./run_demo.sh" % wt, timeout=600)
    sh("git -C %s apply -R %s/patch.diff && make -s -C %s" % (wt, out, wt))
    d0 = sh("cd %s && sh ./run_demo.sh" % wt, timeout=600)
    sh("git -C %s apply %s/patch.diff && make -s -C %s" % (wt, out, wt))
    meta = {"property": prop, "name": name, "baseline_tests_pass_with_change": tests_ok,
            "demo_exit_with_change": d1.returncode, "demo_exit_without_change": d0.returncode,
            "confirmed": bool(tests_ok and d1.returncode != 0 and d0.returncode == 0),
            "needs_to_manifest": open(os.path.join(wt, "NOTES.md")).read()[:1500] if os.path.exists(os.path.join(wt, "NOTES.md")) else "",
            "what_was_run": ["REPO=<worktree> tools/baseline.sh (119 stable tests)", "run_demo.sh with the patch applied", "run_demo.sh with the patch reverted", "REPO=<worktree> bin/check %s quick" % prop]}
    json.dump(meta, open(os.path.join(out, "meta.json"), "w"), indent=1)
    print(name, "tests_ok=%s demo_with=%d demo_without=%d confirmed=%s" % (tests_ok, d1.returncode, d0.returncode, meta["confirmed"]))
    return 0 if meta["confirmed"] else 1

def run(names):
    base = os.path.join(V, "seeded")
    res = []
    for name in sorted(names or os.listdir(base)):
        d = os.path.join(base, name)
        if not os.path.exists(os.path.join(d, "meta.json")): continue
        meta = json.load(open(os.path.join(d, "meta.json")))
        wt = "/tmp/seeded-run-" + name
        sh("git -C /repo worktree remove --force %s" % wt)
        sh("git -C /repo worktree add -f --detach %s HEAD -q" % wt)
        a = sh("git -C %s apply %s/patch.diff" % (wt, d))
        if a.returncode: print(name, "PATCH DOES NOT APPLY", a.stdout[:200]); sh("git -C /repo worktree remove --force %s" % wt); continue
        t0 = time.time()
        props = meta.get("also_check", []) + [meta["property"]]
        caught = {}
        for prop in props:
            r = sh("REPO=%s %s/bin/check %s quick" % (wt, V, prop), env=dict(os.environ, VERIF_SECONDS=os.environ.get("VERIF_SECONDS", "30")))
            classes = re.findall(r"class=(\S+)", r.stdout)
            fr = re.search(r"(\d+) of the (\d+) runs of the search failed", r.stdout)
            caught[prop] = {"exit": r.returncode, "classes": classes}
            if fr: caught[prop]["failing_runs"] = [int(fr.group(1)), int(fr.group(2))]
        sh("git -C /repo worktree remove --force %s" % wt)
        meta["check_result"] = caught
        meta["caught"] = any(v["exit"] == 1 for v in caught.values())
        meta["check_wall_s"] = round(time.time() - t0, 1)
        json.dump(meta, open(os.path.join(d, "meta.json"), "w"), indent=1)
        print("%-28s %s %s" % (name, "CAUGHT" if meta["caught"] else "MISSED", json.dumps(caught)), flush=True)
        res.append(meta["caught"])
    print("caught %d of %d" % (sum(res), len(res)))

if sys.argv[1] == "confirm": sys.exit(confirm(sys.argv[2], sys.argv[3], sys.argv[4]))
elif sys.argv[1] == "run": run(sys.argv[2:])
