#!/usr/bin/env python3
# usage: apply.py FILE <<< blocks '<<<<\nold\n====\nnew\n>>>>'
import sys,re
f=sys.argv[1]
blocks=re.findall(r"<<<<\n(.*?)\n====\n(.*?)\n>>>>", sys.stdin.read(), re.S)
s=open(f).read()
for old,new in blocks:
    if s.count(old)!=1:
        print("block does not apply exactly once:\n"+old[:300]); sys.exit(1)
    s=s.replace(old,new)
open(f,"w").write(s)
print("applied",len(blocks),"to",f)
