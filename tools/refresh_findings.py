#!/usr/bin/env python3
"""re-resolve the /repo commit hash of every fixed finding from the subject recorded in its plan header (after a rebase)"""
import json, os, re, subprocess
V = os.path.dirname(os.path.dirname(os.path.abspath(__file__)))
log = subprocess.run(["git", "-C", "/repo", "log", "--format=%h %s"], stdout=subprocess.PIPE, text=True).stdout.splitlines()
doc = json.load(open(os.path.join(V, "known_findings.json")))
for f in doc["findings"]:
    if f["status"] != "fixed":
        continue
    p = os.path.join(V, f["plan"])
    txt = open(p).read()
    m = re.search(r"^# fixed by /repo commit (\S+) \((.*)\)$", txt, re.M)
    subj = m.group(2) if m else None
    if not subj:
        m2 = re.search(r'^# fixed by /repo commit "(.*?)"', txt, re.M)
        subj = m2.group(1)[5:45] if m2 else None
    c = next((l.split()[0] for l in log if subj and subj in l), None)
    if not c:
        print("UNRESOLVED", f["id"], subj); continue
    if c != f["commit"]:
        print("updated", f["id"], f["commit"], "->", c)
        f["line"] = f["line"].replace(f["commit"], c)
        f["commit"] = c
        if m:
            txt = txt.replace("commit %s (" % m.group(1), "commit %s (" % c)
            open(p, "w").write(txt)
json.dump(doc, open(os.path.join(V, "known_findings.json"), "w"), indent=1)
