#!/usr/bin/env python3
"""tools/check_corpus.py  -- is the regression corpus still worth something?

Every plan under findings/ belongs to a defect that was repaired by a `fix:` commit in /repo.  It has to pass on /repo
(bin/check replays it first thing in every run) *and* fail on the tree as it was before that repair -- otherwise a change to
the harness (an operation's arguments read differently, a knob renamed) has silently turned the plan into a no-op.  This
tool checks the second half: it makes a scratch worktree of the pinned commit (the first commit of /repo) under /tmp,
replays every plan against it, and lists the plans that no longer fail there.  Plans whose defect was introduced by a
later commit of ours do not exist (all findings are defects of the pinned tree), with one exception class: findings
whose pre-fix tree is a later HEAD because the defect sits in code a previous fix touched; those name their parent commit
in known_findings.json ("commit") and are replayed against that commit's parent instead when they pass on the pinned tree.
The worktrees are removed afterwards.  Exit 0 iff every plan fails where it should.
"""
import json, os, re, subprocess, sys
V = os.path.dirname(os.path.dirname(os.path.abspath(__file__)))


def sh(cmd, **kw):
    return subprocess.run(cmd, shell=True, stdout=subprocess.PIPE, stderr=subprocess.STDOUT, text=True, errors="replace", **kw)


def replay(tree, plan):
    r = sh("REPO=%s %s/bin/check --replay %s" % (tree, V, plan))
    m = re.search(r"replay \S+ -> (\S+) hash=", r.stdout)
    return m.group(1) if m else "?"


def worktree(path, rev):
    sh("git -C /repo worktree remove --force %s" % path)
    r = sh("git -C /repo worktree add -f --detach %s %s" % (path, rev))
    if r.returncode:
        print(r.stdout); sys.exit(2)


def main():
    doc = json.load(open(os.path.join(V, "known_findings.json")))
    pinned = sh("git -C /repo rev-list --max-parents=0 HEAD").stdout.split()[0]
    base = "/tmp/corpus-pinned"
    worktree(base, pinned)
    bad = []
    second = []
    n = 0
    for f in doc["findings"]:
        if f.get("status") != "fixed" or not f.get("plan"):
            continue
        n += 1
        cls = replay(base, os.path.join(V, f["plan"]))
        if cls == "OK" or cls.startswith("SKIP") or cls == "?":
            second.append((f, cls))
    sh("git -C /repo worktree remove --force %s" % base)
    # second chance: the tree just before the finding's own fix commit
    for f, cls in second:
        t = "/tmp/corpus-parent"
        worktree(t, f["commit"] + "~1")
        c2 = replay(t, os.path.join(V, f["plan"]))
        sh("git -C /repo worktree remove --force %s" % t)
        if c2 == "OK" or c2.startswith("SKIP") or c2 == "?":
            bad.append((f["id"], cls, c2))
        else:
            print("  %s: passes on the pinned tree (%s), fails on the parent of its fix commit (%s)" % (f["id"], cls, c2))
    print("%d plans replayed; %d do not fail on the pre-fix tree" % (n, len(bad)))
    for b in bad:
        print("  STALE", b)
    sys.exit(1 if bad else 0)


if __name__ == "__main__":
    main()
