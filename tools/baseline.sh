#!/bin/sh
# rebuilds /repo with its own build system and checks that all 119 baseline tests still pass
REPO=${REPO:-/repo}
make -s -C $REPO >/tmp/baseline_build.log 2>&1 || { echo "BUILD FAILED"; tail -20 /tmp/baseline_build.log; exit 1; }
make -s -C $REPO/test test >/tmp/baseline_test.log 2>&1
python3 - "$REPO" <<'PY'
import json,re,sys
base=json.load(open('/root/.vp/BASELINE.json'))['stable_pass']
log=open('/tmp/baseline_test.log',errors='replace').read()
passed=set(re.findall(r'^(Testing .*?)\.\.\.passed', log, re.M))
missing=[t for t in base if t not in passed]
print("baseline: %d/%d stable tests passed" % (len(base)-len(missing), len(base)))
print("  first missing:", missing[:3])
sys.exit(1 if missing else 0)
PY
