#!/bin/sh
# tools/mkworktree.sh NAME -> /tmp/mut/NAME : scratch git worktree of /repo HEAD plus the untracked generated build files
set -e
D=/tmp/mut/$1
git -C /repo worktree add -f --detach "$D" HEAD -q
rsync -a --ignore-existing --exclude .git /repo/ "$D"/
# objects are stale relative to the fresh checkout; make will rebuild what it needs
echo "$D"
