#!/usr/bin/env python3
"""tools/mkfinding.py PROP VARIANT NAME 'commit subject prefix' 'what' <<< plan-body
Runs the plan on the pre-fix tree (REPO_ORIG, default /tmp/orig) and on /repo, records the failing class, writes
findings/PROP/NAME.plan and appends a 'fixed' entry to known_findings.json."""
import sys, os, subprocess, json, re
prop, variant, name, subj, what = sys.argv[1:6]
body = sys.stdin.read()
V = os.path.dirname(os.path.dirname(os.path.abspath(__file__)))
os.makedirs(os.path.join(V, "findings", prop), exist_ok=True)
path = os.path.join(V, "findings", prop, name + ".plan")
open(path, "w").write("# property=%s variant=%s expect=?\n%s" % (prop, variant, body))     # (provisional header: selects the build variant)
def run(repo):
    r = subprocess.run([os.path.join(V, "bin/check"), "--replay", path], env=dict(os.environ, REPO=repo), stdout=subprocess.PIPE, text=True)
    m = re.search(r"replay \S+ -> (\S+) hash=\S+ ?(.*)", r.stdout)
    return (m.group(1), m.group(2)) if m else ("?", r.stdout[-300:])
orig = run(os.environ.get("REPO_ORIG", "/tmp/orig"))
now = run("/repo")
print(name, "orig:", orig, "| now:", now)
if orig[0] == "OK" or now[0] != "OK":
    print("  !! not a fixed finding (must fail on the original tree and pass on /repo)"); os.unlink(path); sys.exit(1)
log = subprocess.run(["git", "-C", "/repo", "log", "--format=%h %s"], stdout=subprocess.PIPE, text=True).stdout.splitlines()
commit = next((l.split()[0] for l in log if subj in l), None)
if not commit:
    print("  !! no commit matching", subj); sys.exit(1)
open(path, "w").write("# property=%s variant=%s expect=%s\n# on the pre-fix tree: %s\n# fixed by /repo commit %s (%s)\n%s" % (prop, variant, orig[0], orig[1], commit, subj, body))
kf = os.path.join(V, "known_findings.json")
doc = json.load(open(kf))
fid = "%s-%s" % (prop, name)
doc["findings"] = [f for f in doc["findings"] if f["id"] != fid]
doc["findings"].append({"id": fid, "property": prop, "status": "fixed", "commit": commit, "what": what, "plan": "findings/%s/%s.plan" % (prop, name),
                        "variant": variant, "line": "fixed: property=%s %s %s" % (prop, commit, what)})
json.dump(doc, open(kf, "w"), indent=1)
