#!/usr/bin/env python3
"""Reach of the workloads inside libast itself: which lines of the functions a property is anchored in do the
simulated runs actually execute?

  tools/coverage.py [ID ...] [--runs N] [--tier quick|thorough]

Builds the `cov` variant (as `plain`, library objects with gcov instrumentation; C15 also `cov5`), executes N generated
plans per property (same generator, same seed numbering as bin/check) on 16 processes, and writes
  build/coverage/<ID>.txt      per source file and function: executed/total lines, and every line never executed
  coverage/summary.json        per property and file: lines executed / instrumented, functions never entered
This is a measuring tool for the person extending the workloads (section 15 of DESIGN.md); it is not a check, decides
nothing and is not registered in MANIFEST.json.  A line that stays at zero is either unreachable from the property's
surface (debug output, fatal paths, NULL guards -- C16's business) or a gap in the workload.
"""
import json, os, re, subprocess, sys, shutil, glob, gzip

VERIF = os.path.dirname(os.path.dirname(os.path.abspath(__file__)))
REPO = os.environ.get("REPO", "/repo")
sys.path.insert(0, os.path.join(VERIF, "bin"))
from props import PROPS

# source files whose coverage is reported per property (the anchors of properties.jsonl restricted to src/*.c, plus
# the helpers those functions lean on)
FILES = {
    "C01": ["str.c", "ustr.c"],
    "C02": ["array.c", "linked_list.c", "dlinked_list.c"],
    "C03": ["array.c", "linked_list.c", "dlinked_list.c", "objpair.c"],
    "C04": ["array.c", "linked_list.c", "dlinked_list.c"],
    "C05": ["str.c", "ustr.c", "mbuff.c", "objpair.c", "tok.c", "url.c", "regexp.c", "array.c", "linked_list.c", "dlinked_list.c", "obj.c"],
    "C06": ["str.c", "ustr.c", "mbuff.c", "objpair.c", "tok.c", "url.c", "regexp.c", "array.c", "linked_list.c", "dlinked_list.c", "obj.c"],
    "C07": ["mbuff.c"],
    "C09": ["conf.c", "file.c", "strings.c"],
    "C10": ["conf.c", "strings.c"],
    "C11": ["conf.c", "file.c", "strings.c"],
    "C14": ["url.c"],
    "C15": ["mem.c"],
    "C17": ["strings.c"],
    "C19": ["socket.c", "str.c"],
}


def sh(cmd, **kw):
    return subprocess.run(cmd, stdout=subprocess.PIPE, stderr=subprocess.STDOUT, text=True, **kw)


def build(variant):
    out = os.path.join(VERIF, "build", "coverage", variant)
    shutil.rmtree(out, ignore_errors=True)
    os.makedirs(out)
    r = sh(["make", "-s", "-j16", "-C", os.path.join(VERIF, "sim"), "VARIANT=" + variant, "REPO=" + REPO, "OUT=" + out])
    if r.returncode != 0:
        print(r.stdout[-3000:]); sys.exit(2)
    return out


def run_prop(pid, out, variant_index, runs, tier):
    for f in glob.glob(os.path.join(out, "*.gcda")):
        os.unlink(f)
    env = dict(os.environ, LC_ALL="C", SIM_TIER=tier, SIM_BATCH="1", SIM_MASK="")
    env.pop("ASAN_OPTIONS", None)
    base = (1 * 1000003 + variant_index * 7919) * 1000000
    nproc = 16
    per = (runs + nproc - 1) // nproc
    procs = [subprocess.Popen([os.path.join(out, "simrun"), "run", pid, str(base + i), str(per), str(nproc)],
                              stdout=subprocess.DEVNULL, stderr=subprocess.DEVNULL, env=env) for i in range(nproc)]
    for p in procs:
        p.wait()


def collect(out):
    """gcov JSON for every library object: {basename of source: {"lines": {n: count}, "functions": [(name, start, end, count)]}}"""
    res = {}
    for gcda in sorted(glob.glob(os.path.join(out, "lib_*.gcda"))):
        r = subprocess.run(["gcov", "-t", "-j", "-o", out, gcda], stdout=subprocess.PIPE, stderr=subprocess.DEVNULL, cwd=out)
        try:
            doc = json.loads(r.stdout.decode("utf-8", "replace"))
        except ValueError:
            continue
        for f in doc.get("files", []):
            name = f["file"]
            if "/src/" not in name and not name.startswith("src/"):
                continue
            b = os.path.basename(name)
            d = res.setdefault(b, {"lines": {}, "functions": {}, "path": name})
            for ln in f["lines"]:
                d["lines"][ln["line_number"]] = d["lines"].get(ln["line_number"], 0) + ln["count"]
            for fn in f["functions"]:
                k = fn["name"]
                old = d["functions"].get(k)
                d["functions"][k] = (fn["start_line"], fn["end_line"], (old[2] if old else 0) + fn["execution_count"])
    return res


NOISE = re.compile(r"^\s*(D_[A-Z_]+\(|DPRINTF|ASSERT|REQUIRE|libast_print_|libast_fatal|libast_dprintf|\}|\{|else\b|break;|return;|#|SPIF_DEALLOC\(self\);|self = \(spif_[a-z_]+_t\) NULL;|SPIF_OBJ_SHOW_NULL)")


def report(pid, cov, files, fp):
    summary = {}
    for b in files:
        d = cov.get(b)
        if not d:
            fp.write("== %s: no data\n" % b); continue
        path = d["path"] if os.path.isabs(d["path"]) else os.path.join(REPO, d["path"])
        try:
            src = open(path, errors="replace").read().splitlines()
        except OSError:
            src = []
        tot = len(d["lines"]); hit = sum(1 for c in d["lines"].values() if c > 0)
        never = sorted(k for k, v in d["functions"].items() if v[2] == 0)
        summary[b] = {"lines_instrumented": tot, "lines_executed": hit, "functions": len(d["functions"]), "functions_never_entered": never}
        fp.write("== %s: %d of %d instrumented lines executed; %d of %d functions never entered\n" % (b, hit, tot, len(never), len(d["functions"])))
        for name, (s, e, cnt) in sorted(d["functions"].items(), key=lambda kv: kv[1][0]):
            ls = [n for n in d["lines"] if s <= n <= e]
            miss = [n for n in sorted(ls) if d["lines"][n] == 0]
            if cnt == 0:
                fp.write("  -- %s (%d-%d): never entered\n" % (name, s, e)); continue
            real = [n for n in miss if n - 1 < len(src) and not NOISE.match(src[n - 1])]
            if not real:
                continue
            fp.write("  -- %s (%d-%d): entered %d times, %d of %d lines never executed\n" % (name, s, e, cnt, len(miss), len(ls)))
            for n in real:
                fp.write("       %5d: %s\n" % (n, src[n - 1].rstrip()[:150] if n - 1 < len(src) else ""))
    return summary


def main():
    args = sys.argv[1:]
    runs, tier = 60000, "quick"
    ids = []
    while args:
        a = args.pop(0)
        if a == "--runs":
            runs = int(args.pop(0))
        elif a == "--tier":
            tier = args.pop(0)
        else:
            ids.append(a)
    ids = ids or sorted(FILES)
    outs = {}
    os.makedirs(os.path.join(VERIF, "build", "coverage"), exist_ok=True)
    os.makedirs(os.path.join(VERIF, "coverage"), exist_ok=True)
    sp = os.path.join(VERIF, "coverage", "summary.json")
    try:
        summary = json.load(open(sp))
    except (OSError, ValueError):
        summary = {}
    for pid in ids:
        total = {}
        for vi, variant in enumerate(PROPS[pid]["variants"]):
            if variant[-1] in "zu":
                continue                      # same code, other fill
            cv = "cov5" if variant.endswith("5") else "cov"
            if cv not in outs:
                outs[cv] = build(cv)
            run_prop(pid, outs[cv], vi, runs, tier)
            cov = collect(outs[cv])
            for b, d in cov.items():
                t = total.setdefault(b, {"lines": {}, "functions": {}, "path": d["path"]})
                for n, c in d["lines"].items():
                    t["lines"][n] = t["lines"].get(n, 0) + c
                for k, v in d["functions"].items():
                    o = t["functions"].get(k)
                    t["functions"][k] = (v[0], v[1], (o[2] if o else 0) + v[2])
        path = os.path.join(VERIF, "build", "coverage", pid + ".txt")
        with open(path, "w") as fp:
            fp.write("# %s: %d plans per variant, tier %s, tree %s\n" % (pid, runs, tier, REPO))
            summary[pid] = {"runs_per_variant": runs, "tier": tier, "files": report(pid, total, FILES[pid], fp)}
        s = summary[pid]["files"]
        print("%s: %s -> %s" % (pid, ", ".join("%s %d/%d" % (b, v["lines_executed"], v["lines_instrumented"]) for b, v in s.items()), os.path.relpath(path, VERIF)))
    with open(sp, "w") as fp:
        json.dump(summary, fp, indent=1, sort_keys=True)
    for o in outs.values():
        shutil.rmtree(o, ignore_errors=True)


if __name__ == "__main__":
    main()
